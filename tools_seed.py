#!/usr/bin/env python3
"""Confirm a sub-agent's seeded defect in a scratch worktree and file it under seeded/.

usage: tools_seed.py <srcdir with patch.diff demo.py notes.md> <seed-id> <property>
Confirms: demo passes on clean tree, patch applies, demo fails with patch,
pinned test-suite still passes (307) with patch.  Then copies into
/verif/seeded/<seed-id>/ with meta.json.  The scratch worktree is removed.
"""
import json, os, re, shutil, subprocess, sys, tempfile
src, sid, prop = sys.argv[1:4]
wt = tempfile.mkdtemp(prefix='seedwt_', dir='/tmp')
os.rmdir(wt)
def sh(cmd, **kw):
  return subprocess.run(cmd, shell=True, capture_output=True, text=True, **kw)
r = sh('git -C /repo worktree add -q --detach %s HEAD' % wt); assert r.returncode == 0, r.stderr
ok = False
try:
  env = dict(os.environ, REPO=wt, PYTHONPATH=wt, PYTHONDONTWRITEBYTECODE='1')
  d0 = sh('cd %s && timeout 300 /venv/bin/python %s/demo.py' % (wt, src), env=env)
  a = sh('git -C %s apply %s/patch.diff' % (wt, src))
  d1 = sh('cd %s && timeout 300 /venv/bin/python %s/demo.py' % (wt, src), env=env)
  t = sh('cd %s && timeout 900 /venv/bin/python -m pytest -q -p no:cacheprovider --timeout=900 --continue-on-collection-errors 2>&1 | tail -3' % wt, env=env)
  m = re.search(r'(\d+) passed', t.stdout)
  passed = int(m.group(1)) if m else -1
  print('clean demo rc=%d | apply rc=%d | patched demo rc=%d | suite: %s' % (d0.returncode, a.returncode, d1.returncode, t.stdout.strip().splitlines()[-1] if t.stdout.strip() else t.stderr))
  ok = d0.returncode == 0 and a.returncode == 0 and d1.returncode != 0 and passed == 307
  if ok:
    dst = '/verif/seeded/%s' % sid
    os.makedirs(dst, exist_ok=True)
    for f in ('patch.diff', 'demo.py', 'notes.md'):
      if os.path.exists(os.path.join(src, f)):
        shutil.copy(os.path.join(src, f), os.path.join(dst, f))
    notes = open(os.path.join(src, 'notes.md')).read() if os.path.exists(os.path.join(src, 'notes.md')) else ''
    meta = {'id': sid, 'property': prop, 'origin': 'independent sub-agent given only the property text',
            'needs_to_manifest': notes.strip()[:1500],
            'confirmed': {'demo_clean_rc': d0.returncode, 'demo_patched_rc': d1.returncode, 'suite_passed_with_patch': passed,
                          'commands': ['REPO=<wt> /venv/bin/python demo.py (clean, then after git apply patch.diff)',
                                       '/venv/bin/python -m pytest -q -p no:cacheprovider --timeout=900 --continue-on-collection-errors']},
            'base_commit': sh('git -C /repo rev-parse HEAD').stdout.strip(),
            'detected_by': None}
    json.dump(meta, open(os.path.join(dst, 'meta.json'), 'w'), indent=1)
    print('filed', dst)
  else:
    print('NOT CONFIRMED'); print(d0.stdout[-500:], d0.stderr[-500:]); print(a.stderr[-300:]); print(d1.stdout[-300:])
finally:
  sh('git -C /repo worktree remove --force %s' % wt)
sys.exit(0 if ok else 1)
