"""Every committed replay artefact of a *fixed* defect must replay cleanly on the current tree."""
import glob
import os
import subprocess

import pytest

ROOT = os.path.dirname(os.path.dirname(os.path.abspath(__file__)))
ARTS = sorted(glob.glob(os.path.join(ROOT, 'replays', 'fixed', '*.json')))


@pytest.mark.parametrize('path', ARTS, ids=[os.path.basename(a) for a in ARTS])
def test_fixed_defect_stays_fixed(path):
  pid = os.path.basename(path).split('-')[0]
  r = subprocess.run([os.path.join(ROOT, 'check'), pid, '--replay', path], capture_output=True, text=True, timeout=600)
  assert r.returncode == 0, r.stdout[-2000:] + r.stderr[-2000:]
