"""Sanity tests of the reference models (they are the oracles, so they get tests of their own)."""
import fractions

from vf.ref import adbspec, conf, fbspec, valspec


def test_conf_precedence():
  c = conf.RefConf({'a': 5})
  c.declare('a', 1)
  c.load_dict({'a': 2})
  assert c.get('a') == 5
  c2 = conf.RefConf()
  c2.declare('a', 1)
  assert c2.get('a') == 1
  c2.load_dict({'a': 2})
  assert c2.get('a') == 2
  c2.load_dict({'a': 3}, override=False)
  assert c2.get('a') == 2
  c2.reset()
  assert c2.get('a') == 1


def test_fastboot_ref():
  r = fbspec.simple('getvar:x', ['INFOa', 'OKAYv'])
  assert r['result'] == ('ret', 'v') and r['infos'] == ['a']
  assert fbspec.simple('x', ['DATA00000001'])['result'][1] == 'state_mismatch'
  d = fbspec.download('abc', 1024, ['DATA00000003', 'OKAY'])
  assert d['result'] == ('ret', '')
  assert fbspec.download('abc', 1024, ['DATA00000004'])['result'][1] == 'transfer'


def test_validator_ref():
  assert valspec.in_range(0, 10, 10) is True
  assert valspec.in_range(0, 10, float('nan')) is False
  assert valspec.in_range(0, None, 10**400) is True
  assert valspec.within_percent(-100, 5, -105) is True
  assert valspec.within_percent(-100, 5, -105.0000001) is False
  assert valspec.ctor_verdict(5, 1, None, None) == 'reject'
  assert valspec.ctor_verdict(0, 10, 2, 8) == 'accept'
  lo, hi = valspec.percent_bounds(8, 12.5)
  assert (lo, hi) == (fractions.Fraction(7), fractions.Fraction(9))


def test_handshake_ref():
  tok = ('msg', ('AUTH', 1, 0, 't'))
  cnxn = ('msg', ('CNXN', 1, 4096, 'device:s:b'))
  r = adbspec.handshake([tok, tok, cnxn], 2)
  assert [w[0] for w in r['writes']] == ['CNXN', 'AUTH', 'AUTH'] and r['result'][0] == 'conn'
  r = adbspec.handshake([tok, tok, tok], 2)
  assert r['writes'][-1][1] == adbspec.AUTH_RSAPUBLICKEY and r['waiting']
  assert adbspec.handshake([('msg', ('AUTH', 2, 0, 'x'))], 1)['result'] == ('err', 'protocol')
  assert adbspec.handshake([tok], 0)['result'] == ('err', 'auth')
