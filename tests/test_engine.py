"""Unit tests of the verification machinery itself (run: cd /verif && PYTHONHASHSEED=0 /venv/bin/python -m pytest -q tests)."""
import threading
import weakref

from vf.sched import explore, runtime


class BuggyMixin(object):
  """A deliberately wrong subscribable object: takes the snapshot *before* registering the event."""

  def __init__(self):
    self._lock = threading.Lock()
    self._events = weakref.WeakSet()
    self.value = 0

  def asdict_with_event(self):
    snap = {'value': self.value}
    runtime.yield_point('between-snapshot-and-register')
    ev = threading.Event()
    with self._lock:
      self._events.add(ev)
    return snap, ev

  def notify_update(self):
    with self._lock:
      for e in self._events:
        e.set()
      self._events.clear()


def _scenario(cls):
  def fn(sched):
    obj = cls()
    out = {}

    def watcher():
      snap, ev = obj.asdict_with_event()
      out['snap'] = snap['value']
      out['ev'] = ev

    def updater():
      obj.value += 1
      obj.notify_update()

    ths = [threading.Thread(target=watcher, name='w'), threading.Thread(target=updater, name='u')]
    for t in ths:
      t.start()
    for t in ths:
      t.join()
    return {'snap': out['snap'], 'set': out['ev'].is_set(), 'final': obj.value}
  return fn


def _execute(cls):
  def execute(choices):
    sched, value = explore.run_under_scheduler(_scenario(cls), choices, focus_files=('test_engine.py',))
    res = {'value': value, 'outcome_key': repr(value)}
    return explore.Exec(list(choices), sched.points, res, sched.failure, sched.steps, len(sched.trace), sched.state_hashes)
  return execute


def _check(ex):
  v = ex.result['value']
  if isinstance(v, dict) and v['snap'] != v['final'] and not v['set']:
    return [('lost-update', repr(v), {'choices': ex.choices})]
  return []


def test_default_schedule_is_deterministic():
  a = _execute(BuggyMixin)([])
  b = _execute(BuggyMixin)([])
  assert [(p['n'], p['label']) for p in a.points] == [(p['n'], p['label']) for p in b.points]
  assert a.result['value'] == b.result['value']


def test_explorer_finds_the_lost_update_in_a_buggy_object():
  r = explore.explore('buggy', _execute(BuggyMixin), _check, 1, cap=5000)
  assert r['executions'] > 5
  assert any(v[0] == 'lost-update' for v in r['violations'])
  # and the counterexample replays
  choices = [v for v in r['violations'] if v[0] == 'lost-update'][0][2]['choices']
  assert _check(_execute(BuggyMixin)(choices))


def test_deadlock_is_detected():
  def fn(sched):
    a, b = threading.Lock(), threading.Lock()

    def t1():
      with a:
        runtime.yield_point('t1')
        with b:
          pass

    def t2():
      with b:
        runtime.yield_point('t2')
        with a:
          pass

    ths = [threading.Thread(target=t1), threading.Thread(target=t2)]
    for t in ths:
      t.start()
    for t in ths:
      t.join()
    return 'done'

  def execute(choices):
    sched, value = explore.run_under_scheduler(fn, choices, focus_files=('test_engine.py',))
    return explore.Exec(list(choices), sched.points, {'value': value, 'outcome_key': repr(value)[:40]}, sched.failure,
                        sched.steps, len(sched.trace), sched.state_hashes)

  r = explore.explore('dl', execute, lambda ex: [('deadlock', '', {})] if isinstance(ex.failure, runtime.Deadlock) else [], 1, cap=2000)
  assert any(v[0] == 'deadlock' for v in r['violations'])


def test_virtual_time_and_timeouts():
  import time

  def fn(sched):
    ev = threading.Event()
    t0 = time.monotonic()
    ok = ev.wait(5.0)
    return (ok, round(time.monotonic() - t0, 3))

  sched, value = explore.run_under_scheduler(fn, [])
  assert value == (False, 5.0)
