"""Unit tests of the verification machinery itself (run: cd /verif && PYTHONHASHSEED=0 /venv/bin/python -m pytest -q tests)."""
import threading
import weakref

from vf.sched import explore, runtime


class BuggyMixin(object):
  """A deliberately wrong subscribable object: takes the snapshot *before* registering the event."""

  def __init__(self):
    self._lock = threading.Lock()
    self._events = weakref.WeakSet()
    self.value = 0

  def asdict_with_event(self):
    snap = {'value': self.value}
    runtime.yield_point('between-snapshot-and-register')
    ev = threading.Event()
    with self._lock:
      self._events.add(ev)
    return snap, ev

  def notify_update(self):
    with self._lock:
      for e in self._events:
        e.set()
      self._events.clear()


def _scenario(cls):
  def fn(sched):
    obj = cls()
    out = {}

    def watcher():
      snap, ev = obj.asdict_with_event()
      out['snap'] = snap['value']
      out['ev'] = ev

    def updater():
      obj.value += 1
      obj.notify_update()

    ths = [threading.Thread(target=watcher, name='w'), threading.Thread(target=updater, name='u')]
    for t in ths:
      t.start()
    for t in ths:
      t.join()
    return {'snap': out['snap'], 'set': out['ev'].is_set(), 'final': obj.value}
  return fn


def _execute(cls):
  def execute(choices):
    sched, value = explore.run_under_scheduler(_scenario(cls), choices, focus_files=('test_engine.py',))
    res = {'value': value, 'outcome_key': repr(value)}
    return explore.Exec(list(choices), sched.points, res, sched.failure, sched.steps, len(sched.trace), sched.state_hashes)
  return execute


def _check(ex):
  v = ex.result['value']
  if isinstance(v, dict) and v['snap'] != v['final'] and not v['set']:
    return [('lost-update', repr(v), {'choices': ex.choices})]
  return []


def test_default_schedule_is_deterministic():
  a = _execute(BuggyMixin)([])
  b = _execute(BuggyMixin)([])
  assert [(p['n'], p['label']) for p in a.points] == [(p['n'], p['label']) for p in b.points]
  assert a.result['value'] == b.result['value']


def test_explorer_finds_the_lost_update_in_a_buggy_object():
  r = explore.explore('buggy', _execute(BuggyMixin), _check, 1, cap=5000)
  assert r['executions'] > 5
  assert any(v[0] == 'lost-update' for v in r['violations'])
  # and the counterexample replays
  choices = [v for v in r['violations'] if v[0] == 'lost-update'][0][2]['choices']
  assert _check(_execute(BuggyMixin)(choices))


def test_deadlock_is_detected():
  def fn(sched):
    a, b = threading.Lock(), threading.Lock()

    def t1():
      with a:
        runtime.yield_point('t1')
        with b:
          pass

    def t2():
      with b:
        runtime.yield_point('t2')
        with a:
          pass

    ths = [threading.Thread(target=t1), threading.Thread(target=t2)]
    for t in ths:
      t.start()
    for t in ths:
      t.join()
    return 'done'

  def execute(choices):
    sched, value = explore.run_under_scheduler(fn, choices, focus_files=('test_engine.py',))
    return explore.Exec(list(choices), sched.points, {'value': value, 'outcome_key': repr(value)[:40]}, sched.failure,
                        sched.steps, len(sched.trace), sched.state_hashes)

  r = explore.explore('dl', execute, lambda ex: [('deadlock', '', {})] if isinstance(ex.failure, runtime.Deadlock) else [], 1, cap=2000)
  assert any(v[0] == 'deadlock' for v in r['violations'])


def test_virtual_time_and_timeouts():
  import time

  def fn(sched):
    ev = threading.Event()
    t0 = time.monotonic()
    ok = ev.wait(5.0)
    return (ok, round(time.monotonic() - t0, 3))

  sched, value = explore.run_under_scheduler(fn, [])
  assert value == (False, 5.0)


# ---- signals --------------------------------------------------------------------------------------------------
import ast


class _Boom(BaseException):
  pass


def _main_critical(lock, log):
  """(a focus target: every line here is a scheduling point, including the LINE event that leaves the with-block)"""
  with lock:
    log.append('main-1')
    log.append('main-2')
  log.append('main-3')


def _signal_scenario(handler_raises, main_holds_lock=False):
  """main starts a worker, then join()s it; one SIGINT may arrive anywhere.  The handler takes a lock the worker also
  uses (so it has scheduling points of its own) -- unless main itself holds that lock -- and optionally raises."""
  def fn(sched):
    lock = threading.Lock()
    log = []

    def handler():
      if main_holds_lock:
        log.append('handler')
      else:
        with lock:
          log.append('handler')
      if handler_raises:
        raise _Boom()

    sched.signal_handler = handler
    sched.signals_left = 1

    def worker():
      for i in range(3):
        with lock:
          runtime.yield_point('w%d' % i)
          log.append('w%d' % i)

    t = threading.Thread(target=worker, name='worker')
    interrupted = False
    alive_after = None
    done_when_joined_again = None
    try:
      if main_holds_lock:
        _main_critical(lock, log)
      t.start()
      t.join()
    except _Boom:
      interrupted = True
      if t.ident is not None:
        alive_after = t.is_alive()
        t.join()            # what Test.execute() does after a KeyboardInterrupt
        done_when_joined_again = 'w2' in log
    sched.signals_left = 0
    import time  # pylint: disable=g-import-not-at-top
    for _ in range(200):       # let the worker finish (virtual sleeps); it cannot if main's release was cancelled
      if t.ident is None or 'w2' in log:
        break
      time.sleep(0.001)
    free = lock.acquire(False)
    if free:
      lock.release()
    return {'interrupted': interrupted, 'alive_after': alive_after, 'done_when_joined_again': done_when_joined_again,
            'handler_at': log.index('handler') if 'handler' in log else None, 'lock_free': free}
  return fn


def _sig_execute(handler_raises, main_holds_lock=False):
  def execute(choices):
    sched, value = explore.run_under_scheduler(_signal_scenario(handler_raises, main_holds_lock), choices,
                                               focus_targets=[_main_critical], focus_files=('test_engine.py',))
    res = {'value': value, 'outcome_key': repr(value)[:300] if sched.failure is None else 'FAILURE %r' % (sched.failure,)}
    return explore.Exec(list(choices), sched.points, res, sched.failure, sched.steps, len(sched.trace), sched.state_hashes)
  return execute


def _outcomes(r):
  out = []
  for k in r['outcomes']:
    assert 'FAILURE' not in k[:12], k
    v = ast.literal_eval(k)
    if isinstance(v, str):       # (the explorer stores the repr of the key)
      v = ast.literal_eval(v)
    out.append(v)
  return out


def test_signal_handler_runs_while_main_is_blocked_in_join():
  """The handler must be able to run (and finish) in the middle of the worker's activity, not only when join() is over."""
  r = explore.explore('sig1', _sig_execute(False), lambda ex: [], 1, cap=5000)
  assert not r['capped']
  positions = {o['handler_at'] for o in _outcomes(r) if o['handler_at'] is not None}
  assert len(positions) >= 3, positions      # handler observed before, between and after the worker's steps


def test_interrupted_join_marks_the_thread_stopped_like_this_interpreter():
  """CPython <= 3.12: a handler raising inside join() makes later join()/is_alive() report a running thread as done."""
  r = explore.explore('sig2', _sig_execute(True), lambda ex: [], 1, cap=5000)
  seen = {(o['alive_after'], o['done_when_joined_again']) for o in _outcomes(r) if o['interrupted'] and o['alive_after'] is not None}
  assert seen, r['outcomes']
  if runtime.JOIN_INTERRUPT_MARKS_STOPPED:
    assert (False, False) in seen, seen      # reported dead, and the second join() returned, while it still had work to do
  else:
    assert all(done for _, done in seen), seen


def test_a_raising_handler_never_cancels_a_lock_release():
  """Signals are not delivered in front of a C-level release() nor at the LINE event that leaves a with-block."""
  r = explore.explore('sig3', _sig_execute(True, main_holds_lock=True), lambda ex: [], 1, cap=5000)
  outs = _outcomes(r)
  assert any(o['interrupted'] for o in outs)
  assert all(o['lock_free'] for o in outs), outs
