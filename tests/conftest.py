import os
import sys
ROOT = os.path.dirname(os.path.dirname(os.path.abspath(__file__)))
for p in ('/repo', ROOT):
  if p not in sys.path:
    sys.path.insert(0, p)
sys.argv = [sys.argv[0]]
