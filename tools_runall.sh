#!/bin/bash
# usage: tools_runall.sh [tier] [seed]   -- runs every check once on /repo, prints id rc wall and the VIOLATION/KNOWN lines
TIER=${1:-quick}; export VERIF_SEED=${2:-0}
cd /verif
for id in C01 C02 C03 C04 C05 C06 C07 C08 C09 C10 C11 C12 C13 C14 C15 C16 C17 C18 C19 C20; do
  t0=$(date +%s)
  out=$(timeout ${VERIF_RUNALL_TIMEOUT:-7200} ./check $id --tier $TIER 2>/dev/null)
  rc=$?
  echo "$id tier=$TIER seed=$VERIF_SEED rc=$rc wall=$(( $(date +%s) - t0 ))s viol=$(echo "$out" | grep -c '^VIOLATION') known=$(echo "$out" | grep -c '^KNOWN-FINDING')"
  echo "$out" | grep '^VIOLATION' -A2 | head -12
done
