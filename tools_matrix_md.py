#!/usr/bin/env python3
"""Writes seeded/MATRIX.md from the detected_by entries recorded by tools_seedmatrix.py."""
import json, os
root = os.path.dirname(os.path.abspath(__file__))
rows = []
for sid in sorted(os.listdir(os.path.join(root, 'seeded'))):
  mp = os.path.join(root, 'seeded', sid, 'meta.json')
  if not os.path.exists(mp):
    continue
  m = json.load(open(mp))
  d = m.get('detected_by') or {}
  first = (d.get('first_signatures') or [''])[0].replace('|', '\\|')
  rows.append('| %s | %s | %s | %s | %s | `%s` |' % (sid, m['property'], d.get('check', '-'), 'yes' if d.get('detected') else 'NO',
                                               d.get('wall_s', '-'), first[:110]))
out = ['# Seeded defects x checks', '',
       'Each row: the seed was applied to /repo (`git apply`), the property\'s check was run, the patch was reverted.',
       '', '| seed | property | check | detected | wall s | first signature |', '|---|---|---|---|---|---|'] + rows
n = sum(1 for r in rows if '| yes |' in r)
out += ['', 'detected %d / %d' % (n, len(rows)), '']
open(os.path.join(root, 'seeded', 'MATRIX.md'), 'w').write('\n'.join(out))
print('detected %d / %d' % (n, len(rows)))
