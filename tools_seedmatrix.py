#!/usr/bin/env python3
"""Runs every seeded defect under /verif/seeded against its property's check (quick tier by default),
records the result in seeded/<id>/meta.json (detected_by) and prints the matrix.

usage: tools_seedmatrix.py [--tier quick|thorough] [ids...]
Applies each patch to /repo (git apply), runs the check, always reverts (git checkout -- .).
"""
import json, os, subprocess, sys, time
tier = 'quick'
args = sys.argv[1:]
if args[:1] == ['--tier']:
  tier = args[1]; args = args[2:]
root = os.path.dirname(os.path.abspath(__file__))
ids = args or sorted(os.listdir(os.path.join(root, 'seeded')))
rows = []
for sid in ids:
  d = os.path.join(root, 'seeded', sid)
  meta = json.load(open(os.path.join(d, 'meta.json')))
  prop = meta['property']
  if subprocess.run('git -C /repo diff --quiet', shell=True).returncode != 0:
    print('repo dirty; abort'); sys.exit(2)
  a = subprocess.run('git -C /repo apply %s/patch.diff' % d, shell=True, capture_output=True, text=True)
  if a.returncode != 0:
    rows.append((sid, prop, 'PATCH-FAILED', 0)); print(sid, 'patch failed', a.stderr[:200]); continue
  t = time.time()
  try:
    r = subprocess.run('cd %s && timeout 1800 ./check %s --tier %s' % (root, prop, tier), shell=True, capture_output=True, text=True)
  finally:
    subprocess.run('git -C /repo checkout -- .', shell=True)
  sigs = [l.split('signature: ')[1] for l in r.stdout.splitlines() if 'signature: ' in l]
  detected = r.returncode == 1 and 'VIOLATION property=%s' % prop in r.stdout
  meta['detected_by'] = {'check': './check %s --tier %s' % (prop, tier), 'detected': detected,
                         'first_signatures': sigs[:3], 'wall_s': round(time.time() - t, 1)} if detected else \
                        {'check': './check %s --tier %s' % (prop, tier), 'detected': False, 'rc': r.returncode}
  json.dump(meta, open(os.path.join(d, 'meta.json'), 'w'), indent=1)
  rows.append((sid, prop, 'DETECTED' if detected else 'MISSED(rc=%d)' % r.returncode, round(time.time() - t, 1)))
  print(rows[-1], sigs[:1], flush=True)
print('\n'.join('%-8s %-4s %-14s %6.1fs' % r for r in rows))
print('detected %d / %d' % (sum(1 for r in rows if r[2] == 'DETECTED'), len(rows)))
