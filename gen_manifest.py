#!/usr/bin/env python3
"""Regenerates MANIFEST.json from vf/registry.py (single source of truth)."""
import json, os, sys
sys.path.insert(0, os.path.dirname(os.path.abspath(__file__)))
from vf import registry
props = [json.loads(l) for l in open(os.path.join(os.path.dirname(os.path.abspath(__file__)), 'properties.jsonl'))]
ids = [p['id'] for p in props]
checks = []
for pid in ids:
  c = registry.CHECKS.get(pid)
  if not c: continue
  checks.append({
    'property_id': pid,
    'quick_cmd': './check %s --tier quick' % pid,
    'thorough_cmd': './check %s --tier thorough' % pid,
    'evidence_file': 'evidence/%s.json' % pid,
    'replay_cmd_template': './check %s --replay {path}' % pid,
    'engine': c['engine'],
    'level_claimed': {'category': c['level'], 'text': c['text'], 'design_ref': c['design_ref']},
    'level_note': c['note'],
    'technique': c['technique'],
  })
na = [{'property_id': pid, 'reason': registry.NOT_APPLICABLE.get(pid, 'check not built yet in this session; no claim is made')} for pid in ids if pid not in registry.CHECKS]
m = {
  'version': 1,
  'setup_cmd': 'true',
  'hooks': {'guard': 'OPENHTF_VERIF', 'enable': 'no source hooks: all seams are installed from /verif by monkey-patching at run time; ./check exports OPENHTF_VERIF=1 (unused by the repository)',
            'baseline_off_cmd': 'cd /repo && /venv/bin/python -m pytest -ra -q -p no:cacheprovider --timeout=900 --continue-on-collection-errors',
            'source_commits': [], 'add_only': True},
  'engines': registry.ENGINES,
  'checks': checks,
  'not_applicable': na,
  'notes': registry.NOTES,
}
json.dump(m, open(os.path.join(os.path.dirname(os.path.abspath(__file__)), 'MANIFEST.json'), 'w'), indent=1)
print('checks:', [c['property_id'] for c in checks], 'not_applicable:', [n['property_id'] for n in na])
