#!/bin/bash
# usage: tools_mut.sh <patch> <check-id> [tier]   -- apply patch to /repo, run check, always revert
set -u
P="$(realpath "$1")"; ID="$2"; TIER="${3:-quick}"
cd /repo || exit 2
if ! git diff --quiet; then echo "repo dirty"; exit 2; fi
git apply "$P" || { echo "patch failed"; exit 2; }
cd /verif && timeout 1200 ./check "$ID" --tier "$TIER" 2>&1 | tail -n 12
RC=${PIPESTATUS[0]}
git -C /repo checkout -- . 
echo "check rc=$RC"
exit $RC
