"""Engine S runtime: a controlled scheduler for real OS threads.

Exactly one *logical* thread runs at any time (it holds the token); every other
managed thread is parked on its private baton (a raw _thread lock).  All
synchronisation primitives the code under test can reach (threading.Lock /
RLock / Event / Condition, Thread.start/join/is_alive, time.time/monotonic/
sleep, queue's clock, ctypes' PyThreadState_SetAsyncExc) are replaced for the
duration of one execution by scheduler-aware versions, so blocking is modelled
(a blocked thread is *disabled*, never really blocked) and time is virtual.

Scheduling decisions are delegated to a `chooser(n_alternatives, info) -> idx`.
The canonical order of alternatives at a decision point is:
  [current thread, if still enabled] + other enabled threads by ascending id
  + "fire timer of thread t" for blocked threads whose deadline lies within
    SLACK of now (ascending deadline, id) + pending external signals.
Choice 0 is the default (keep running / lowest id).
"""
import _thread
import collections
import ctypes
import logging
import os
import queue as queue_mod
import sys
import threading
import time as time_mod
import weakref

from vf import linehook

SLACK = 5.0
FAR = 100000.0     # virtual seconds; a wait longer than this is treated as 'forever'
_REAL = {
    'Lock': threading.Lock, 'RLock': threading.RLock, 'Event': threading.Event,
    'Condition': threading.Condition, 'start': threading.Thread.start, 'join': threading.Thread.join,
    'is_alive': threading.Thread.is_alive, 'time': time_mod.time, 'monotonic': time_mod.monotonic,
    'sleep': time_mod.sleep, 'queue_time': queue_mod.time,
}
ACTIVE = {'sched': None}


class RawEvent(object):
  """A truly real event built on a raw lock (threading.Event would be assembled
  from the patched Condition/Lock while the scheduler is installed)."""

  def __init__(self):
    self._l = _thread.allocate_lock()
    self._l.acquire()
    self._flag = False

  def set(self):
    self._flag = True
    try:
      self._l.release()
    except RuntimeError:
      pass

  def is_set(self):
    return self._flag

  isSet = is_set

  def clear(self):
    self._flag = False

  def wait(self, timeout=None):
    if self._flag:
      return True
    if timeout is None:
      self._l.acquire()
    elif not self._l.acquire(True, timeout):
      return self._flag
    try:
      self._l.release()
    except RuntimeError:
      pass
    return True

  def _at_fork_reinit(self):
    pass


class SchedulerAbort(BaseException):
  """Raised into parked threads when an execution is torn down."""


class Deadlock(Exception):
  pass


class StepLimit(Exception):
  pass


class Divergence(Exception):
  """Replay of a recorded prefix met a different set of alternatives: nondeterminism leak."""


class LThread(object):

  def __init__(self, tid, name, pythread=None):
    self.tid = tid
    self.name = name
    self.pythread = pythread
    self.baton = _thread.allocate_lock()
    self.baton.acquire()
    self.state = 'new'        # new | ready | blocked | done
    self.wait_pred = None     # callable -> bool when blocked
    self.deadline = None
    self.timed_out = False
    self.pending_exc = None
    self.label = 'start'
    self.ident = None
    self.last_line = None

  def __repr__(self):
    return 'T%d(%s,%s)' % (self.tid, self.name, self.state)


def current():
  s = ACTIVE['sched']
  if s is None:
    return None, None
  lt = s.by_ident.get(_thread.get_ident())
  return s, lt


class Scheduler(object):

  def __init__(self, chooser, max_steps=20000, horizon=1e9, focus_files=(), signals=0, signal_handler=None,
               preempt_filter=None):
    self.chooser = chooser
    self.max_steps = max_steps
    self.horizon = horizon
    self.focus_files = tuple(focus_files)
    self.threads = []
    self.by_ident = {}
    self.current = None
    self.now = 1000000.0
    self.steps = 0
    self.trace = []            # (tid, label) per decision point
    self.points = []           # decision records: dict(n, choice, cur_enabled, kinds)
    self.aborting = False
    self.failure = None        # Deadlock / StepLimit
    self.seq = 0
    self.signals_left = signals
    self.signal_handler = signal_handler
    self.pending_signal = 0
    self.events = []           # harness-visible event log (append via log())
    self.thread_errors = []
    self.state_hashes = set()
    self.preempt_filter = preempt_filter
    self.op_watch = ()
    self.line_watch = ()
    self.signal_enabled = None
    self.gates = []
    self.lock = _thread.allocate_lock()   # protects registry during thread bootstrap

  # ---- registry -------------------------------------------------------------
  def register_main(self):
    lt = LThread(0, 'main', threading.current_thread())
    lt.state = 'ready'
    lt.ident = _thread.get_ident()
    self.threads.append(lt)
    self.by_ident[lt.ident] = lt
    self.current = lt
    return lt

  def new_thread(self, pythread):
    name = pythread.name
    if name.startswith('Thread-'):
      # threading's automatic names carry a process-wide counter: not reproducible
      name = 'Thread#%d%s' % (len(self.threads), name[name.index(' '):] if ' ' in name else '')
    lt = LThread(len(self.threads), name, pythread)
    lt.state = 'ready'
    self.threads.append(lt)
    return lt

  def add_gate(self, event, thread_name, flt=None, cost=0, after=None):
    """An externally triggered event (e.g. "the operator presses abort now").

    While unfired, every decision point accepted by `flt(sched, running_thread)` offers the extra alternative
    "open the gate": the event is set and the thread waiting on it runs next.
    """
    g = {'event': event, 'thread': thread_name, 'fired': False, 'cost': cost, 'filter': flt or (lambda s, me: True),
         'after': after}
    self.gates.append(g)
    return g

  def _thread_named(self, name):
    for t in self.threads:
      if t.name == name:
        return t
    return None

  def next_seq(self):
    self.seq += 1
    return self.seq

  def log(self, *ev):
    self.events.append(ev)

  # ---- enabled set ------------------------------------------------------------
  def _enabled(self, lt):
    if lt.state == 'ready':
      return True
    if lt.state == 'blocked':
      if lt.wait_pred is not None and lt.wait_pred():
        return True
      if lt.deadline is not None and lt.deadline <= self.now:
        return True
    return False

  def _alternatives(self, me):
    """Returns list of (kind, thread) in canonical order."""
    alts = []
    if me is not None and self._enabled(me):
      alts.append(('run', me))
    for t in self.threads:
      if t is not me and self._enabled(t):
        alts.append(('run', t))
    timers = [t for t in self.threads if t.state == 'blocked' and t.deadline is not None and
              t.deadline > self.now and not (t.wait_pred is not None and t.wait_pred())]
    timers.sort(key=lambda t: (t.deadline, t.tid))
    if not alts:
      # nothing enabled: time passes to the earliest deadline (no choice involved) -- unless that deadline is
      # absurdly far away (the executor's one-year join): then every thread is stuck, i.e. a deadlock.
      if timers and timers[0].deadline - self.now <= FAR:
        alts.append(('timer', timers[0]))
    else:
      for t in timers:
        if t.deadline - self.now <= SLACK:
          alts.append(('timer', t))
    for g in self.gates:
      if not g['fired'] and (g['after'] is None or g['after']['fired']) and g['filter'](self, me):
        t = self._thread_named(g['thread'])
        if t is not None and t.state == 'blocked':
          alts.append(('gate%d' % g['cost'], t, g))
    if self.signals_left > 0 and self.threads[0].state != 'done' and (self.signal_enabled is None or self.signal_enabled()) \
        and self._signal_deliverable(self.threads[0]):
      alts.append(('signal' if getattr(self, 'signal_cost', 1) else 'signal0', self.threads[0]))
    return alts

  @staticmethod
  def _signal_deliverable(main):
    """Python runs signal handlers between bytecodes and inside interruptible blocking calls, never in the middle of
    a C-level primitive: a handler that raises must not be able to cancel a lock release / event set that the
    interpreter performs atomically.  The main thread's scheduling points before such operations are therefore not
    delivery points (the signal is delivered at its next source-line point instead)."""
    lab = main.label or ''
    if getattr(main, 'with_exit', False):
      return False
    if main.state == 'blocked' or not lab.startswith(('lock.', 'rlock.', 'event.', 'cond.', 'queue.')):
      return True          # blocked in a wait, at a source line, at thread start/join, asleep, at a harness yield point
    return 'acquire' in lab or '.wait' in lab

  # ---- the switch ---------------------------------------------------------------
  def switch(self, me, label, blocking=False):
    """Called by the running thread `me` at a scheduling point.

    If me is blocked (me.state == 'blocked') it stays parked until chosen.
    Returns when `me` is scheduled again.
    """
    if self.aborting:
      raise SchedulerAbort()
    me.label = label
    if not label.startswith('L:'):
      me.last_line = None
      if self.op_watch and any(w in me.name for w in self.op_watch):
        # synchronisation operations of watched threads, with the virtual time at which they were reached
        self.events.append(('op', me.name, label, self.now))
    self.steps += 1
    if self.steps > self.max_steps:
      self.failure = StepLimit('more than %d scheduling steps (livelock?) at %s' % (self.max_steps, label))
      self._abort_all(me)
      raise SchedulerAbort()
    if self.now > self.horizon:
      self.failure = StepLimit('virtual time beyond horizon at %s' % label)
      self._abort_all(me)
      raise SchedulerAbort()
    alts = self._alternatives(me)
    if not alts:
      self.failure = Deadlock('no enabled thread and no timer: %r' % ([(t.name, t.state, t.label) for t in self.threads],))
      self._abort_all(me)
      raise SchedulerAbort()
    cur_enabled = alts[0][1] is me and alts[0][0] == 'run'
    if len(alts) == 1:
      idx = 0
    else:
      if self.preempt_filter is not None and cur_enabled and not self.preempt_filter(me, label):
        # not a preemption point for this harness: the running thread may not be preempted by another *thread* here;
        # external events (gates, signals) and timers remain possible
        alts = [alts[0]] + [a for a in alts[1:] if a[0] != 'run']
      kinds = [a[0] for a in alts]
      if len(alts) == 1:
        idx = 0
      else:
        try:
          idx = self.chooser(len(alts), {'cur_enabled': cur_enabled, 'kinds': kinds, 'label': label,
                                         'tid': me.tid, 'step': len(self.points)})
          if not 0 <= idx < len(alts):
            raise Divergence('choice %d out of range (%d alternatives) at %s' % (idx, len(alts), label))
        except Divergence as e:
          self.failure = e
          self._abort_all(me)
          raise SchedulerAbort()
        self.points.append({'n': len(alts), 'choice': idx, 'cur_enabled': cur_enabled, 'kinds': kinds,
                            'label': label, 'tid': me.tid})
    kind, target = alts[idx][0], alts[idx][1]
    self.state_hashes.add(hash((tuple((t.state, t.label) for t in self.threads), kind, target.tid)))
    if kind.startswith('gate'):
      g = alts[idx][2]
      g['fired'] = True
      g['event']._flag = True  # pylint: disable=protected-access
    if kind == 'timer':
      if any(a[0] == 'run' for a in alts):
        # a timer fired although some thread could still run: the clock jumped ahead of the computation by this much
        self.early_jump = getattr(self, 'early_jump', 0.0) + max(0.0, target.deadline - self.now)
      self.now = max(self.now, target.deadline)
      target.timed_out = True
    elif kind.startswith('signal'):
      self.signals_left -= 1
      self.pending_signal += 1
      # the main thread handles it when it next runs; make it runnable even if blocked
      target.signal_wakeup = True
    self.trace.append((target.tid, kind, label if target is me else target.label))
    if target is me:
      return self._resume(me)
    self.current = target
    target.baton.release()
    me.baton.acquire()          # park
    if self.aborting:
      raise SchedulerAbort()
    return self._resume(me)

  def _resume(self, me):
    self.current = me
    if me.tid == 0 and self.pending_signal:
      self.pending_signal -= 1
      if self.signal_handler is not None:
        # The handler runs on the main thread as ordinary runnable code, even if the signal found the thread blocked
        # (in join, a lock or a sleep): it must be schedulable at its own scheduling points.  If it returns, the
        # interrupted wait resumes; if it raises, the exception leaves the blocking call.
        saved = (me.state, me.wait_pred, me.deadline, me.timed_out, me.label)
        me.state, me.wait_pred, me.deadline = 'ready', None, None
        self.signal_handler()          # may raise KeyboardInterrupt into the main thread
        if saved[0] == 'blocked':
          me.state, me.wait_pred, me.deadline, me.timed_out, me.label = saved
    return None

  def _abort_all(self, me):
    self.aborting = True
    for t in self.threads:
      if t is not me and t.state != 'done':
        try:
          t.baton.release()
        except RuntimeError:
          pass

  # ---- blocking helper -------------------------------------------------------------
  def block_until(self, me, pred, timeout, label):
    """Blocks the logical thread until pred() or timeout; returns True if pred holds."""
    if pred():
      return True
    if timeout is not None and timeout <= 0:
      return False
    me.state = 'blocked'
    me.wait_pred = pred
    me.deadline = None if timeout is None else self.now + timeout
    me.timed_out = False
    me.signal_wakeup = False
    try:
      while True:
        self.switch(me, label, blocking=True)
        if pred():
          return True
        if me.deadline is not None and me.deadline <= self.now:
          return False
        # spurious (signal handled without raising): keep waiting
    finally:
      me.state = 'ready' if me.state == 'blocked' else me.state
      me.wait_pred = None
      me.deadline = None

  def deliver_async(self, me):
    if me.pending_exc is not None:
      exc, me.pending_exc = me.pending_exc, None
      raise exc

  # ---- thread lifecycle ----------------------------------------------------------------
  def thread_exit(self, me):
    me.state = 'done'
    if self.aborting:
      return
    alts = self._alternatives(None)
    if not alts:
      if all(t.state == 'done' for t in self.threads):
        return
      self.failure = Deadlock('no enabled thread after %s exited: %r' % (me.name, [(t.name, t.state, t.label) for t in self.threads]))
      self._abort_all(me)
      return
    if len(alts) == 1:
      idx = 0
    else:
      try:
        idx = self.chooser(len(alts), {'cur_enabled': False, 'kinds': [a[0] for a in alts], 'label': 'exit:' + me.name,
                                       'tid': me.tid, 'step': len(self.points)})
        if not 0 <= idx < len(alts):
          raise Divergence('choice %d out of range (%d) at exit of %s' % (idx, len(alts), me.name))
      except Divergence as e:
        self.failure = e
        self._abort_all(me)
        return
      self.points.append({'n': len(alts), 'choice': idx, 'cur_enabled': False, 'kinds': [a[0] for a in alts],
                          'label': 'exit:' + me.name, 'tid': me.tid})
    kind, target = alts[idx][0], alts[idx][1]
    if kind.startswith('gate'):
      alts[idx][2]['fired'] = True
      alts[idx][2]['event']._flag = True  # pylint: disable=protected-access
    if kind == 'timer':
      if any(a[0] == 'run' for a in alts):
        # a timer fired although some thread could still run: the clock jumped ahead of the computation by this much
        self.early_jump = getattr(self, 'early_jump', 0.0) + max(0.0, target.deadline - self.now)
      self.now = max(self.now, target.deadline)
      target.timed_out = True
    elif kind.startswith('signal'):
      self.signals_left -= 1
      self.pending_signal += 1
    self.trace.append((target.tid, kind, target.label))
    self.current = target
    target.baton.release()


# ---- fake primitives ------------------------------------------------------------------
def _caller_file(depth=2):
  try:
    return sys._getframe(depth).f_code.co_filename  # pylint: disable=protected-access
  except ValueError:
    return ''


class _Prim(object):
  """Base: deterministic identity, focus flag."""

  def _init_prim(self):
    s = ACTIVE['sched']
    self._seq = s.next_seq() if s is not None else id(self)
    f = _caller_file(3)
    self._focus = s is not None and (not s.focus_files or f.endswith(s.focus_files))
    self._site = os.path.basename(f)

  def __hash__(self):
    return self._seq

  def __eq__(self, other):
    return self is other


class FakeLock(_Prim):

  def __init__(self):
    self._init_prim()
    self._owner = None
    self._real = _thread.allocate_lock()      # used only when no scheduler is active

  def acquire(self, blocking=True, timeout=-1):
    s, me = current()
    if s is None or me is None:
      return self._real.acquire(blocking, timeout)
    if s.aborting:
      return True
    if self._focus:
      s.switch(me, 'lock.acquire@%s' % self._site)
    if self._owner is None:
      self._owner = me
      return True
    if not blocking:
      return False
    ok = s.block_until(me, lambda: self._owner is None, None if timeout is None or timeout < 0 else timeout,
                       'lock.wait@%s' % self._site)
    if ok:
      self._owner = me
    return ok

  def release(self):
    s, me = current()
    if s is None or me is None:
      self._owner = None
      try:
        self._real.release()
      except RuntimeError:
        pass
      return
    if self._owner is None and not s.aborting:
      raise RuntimeError('release unlocked lock')      # like the real Lock
    self._owner = None
    if self._focus and not s.aborting:
      s.switch(me, 'lock.release@%s' % self._site)

  def locked(self):
    return self._owner is not None or self._real.locked()

  __enter__ = acquire

  def __exit__(self, *a):
    self.release()

  def _at_fork_reinit(self):
    self._owner = None


class FakeRLock(_Prim):

  def __init__(self):
    self._init_prim()
    self._owner = None
    self._count = 0

  def acquire(self, blocking=True, timeout=-1):
    s, me = current()
    if s is None or me is None or s.aborting:
      who = _thread.get_ident()
      if self._owner in (None, who) or s is None or s.aborting:
        self._owner = who
        self._count += 1
      return True
    if self._owner is me:
      self._count += 1
      return True
    if self._focus:
      s.switch(me, 'rlock.acquire@%s' % self._site)
    if self._owner is None:
      self._owner = me
      self._count = 1
      return True
    if not blocking:
      return False
    ok = s.block_until(me, lambda: self._owner is None, None if timeout is None or timeout < 0 else timeout,
                       'rlock.wait@%s' % self._site)
    if ok:
      self._owner = me
      self._count = 1
    return ok

  def release(self):
    s, me = current()
    if s is not None and me is not None and not s.aborting and self._owner is not me:
      # like the real RLock: only the owning thread may release it
      raise RuntimeError('cannot release un-acquired lock')
    self._count -= 1
    if self._count <= 0:
      self._count = 0
      self._owner = None
      if s is not None and me is not None and self._focus and not s.aborting:
        s.switch(me, 'rlock.release@%s' % self._site)

  __enter__ = acquire

  def __exit__(self, *a):
    self.release()

  # Condition support
  def _is_owned(self):
    s, me = current()
    return self._owner is (me if me is not None else _thread.get_ident())

  def _release_save(self):
    st = (self._owner, self._count)
    self._owner, self._count = None, 0
    return st

  def _acquire_restore(self, st):
    s, me = current()
    if s is not None and me is not None and not s.aborting:
      s.block_until(me, lambda: self._owner is None, None, 'rlock.reacquire@%s' % self._site)
    self._owner, self._count = st

  def _at_fork_reinit(self):
    self._owner, self._count = None, 0


class FakeCondition(_Prim):

  def __init__(self, lock=None):
    self._init_prim()
    self._lock = lock if lock is not None else FakeRLock()
    self._waiters = []
    self.acquire = self._lock.acquire
    self.release = self._lock.release

  def __enter__(self):
    return self._lock.__enter__()

  def __exit__(self, *a):
    return self._lock.__exit__(*a)

  def _release_save(self):
    if hasattr(self._lock, '_release_save'):
      return self._lock._release_save()  # pylint: disable=protected-access
    self._lock._owner = None  # pylint: disable=protected-access
    return None

  def _acquire_restore(self, st):
    if hasattr(self._lock, '_acquire_restore'):
      return self._lock._acquire_restore(st)  # pylint: disable=protected-access
    s, me = current()
    if s is not None and me is not None and not s.aborting:
      s.block_until(me, lambda: self._lock._owner is None, None, 'cond.reacquire@%s' % self._site)  # pylint: disable=protected-access
    self._lock._owner = me if me is not None else True  # pylint: disable=protected-access

  def wait(self, timeout=None):
    s, me = current()
    if s is None or me is None or s.aborting:
      return True
    w = [False]
    self._waiters.append(w)
    st = self._release_save()
    try:
      ok = s.block_until(me, lambda: w[0], timeout, 'cond.wait@%s' % self._site)
    finally:
      if w in self._waiters:
        self._waiters.remove(w)
      self._acquire_restore(st)
    return ok

  def wait_for(self, predicate, timeout=None):
    s, me = current()
    end = None if timeout is None else (s.now + timeout if s else None)
    result = predicate()
    while not result:
      remaining = None
      if end is not None:
        remaining = end - s.now
        if remaining <= 0:
          break
      self.wait(remaining)
      result = predicate()
    return result

  def notify(self, n=1):
    for w in self._waiters[:n]:
      w[0] = True
    del self._waiters[:n]
    s, me = current()
    if s is not None and me is not None and self._focus and not s.aborting:
      s.switch(me, 'cond.notify@%s' % self._site)

  def notify_all(self):
    self.notify(len(self._waiters))

  notifyAll = notify_all


class FakeEvent(_Prim):

  def __init__(self):
    self._init_prim()
    self._flag = False

  def is_set(self):
    s, me = current()
    if s is not None and me is not None and self._focus and not s.aborting:
      s.switch(me, 'event.is_set@%s' % self._site)
    return self._flag

  isSet = is_set

  def set(self):
    s, me = current()
    self._flag = True
    if s is not None and me is not None and self._focus and not s.aborting:
      s.switch(me, 'event.set@%s' % self._site)

  def clear(self):
    s, me = current()
    self._flag = False
    if s is not None and me is not None and self._focus and not s.aborting:
      s.switch(me, 'event.clear@%s' % self._site)

  def wait(self, timeout=None):
    s, me = current()
    if s is None or me is None or s.aborting:
      return self._flag
    if self._focus:
      s.switch(me, 'event.wait@%s' % self._site)
    return s.block_until(me, lambda: self._flag, timeout, 'event.wait@%s' % self._site)

  def _at_fork_reinit(self):
    pass


# ---- thread / time patches --------------------------------------------------------------
def _thread_start(self):
  s, me = current()
  if s is None or me is None or s.aborting:
    return _REAL['start'](self)
  lt = s.new_thread(self)
  self._started = RawEvent()
  orig_run = self.run

  def run_wrapper():
    lt.ident = _thread.get_ident()
    s.by_ident[lt.ident] = lt
    lt.baton.acquire()            # wait to be scheduled for the first time
    try:
      if s.aborting:
        return
      s.current = lt
      orig_run()
    except SchedulerAbort:
      pass
    finally:
      try:
        s.thread_exit(lt)
      except SchedulerAbort:
        pass

  self.run = run_wrapper
  self._vf_lthread = lt
  _REAL['start'](self)
  lt.ident = self.ident
  s.by_ident[lt.ident] = lt
  s.switch(me, 'thread.start:%s' % type(self).__name__)


def _thread_join(self, timeout=None):
  s, me = current()
  lt = getattr(self, '_vf_lthread', None)
  if s is None or me is None or lt is None or s.aborting:
    if lt is not None and (s is None or s.aborting):
      return _REAL['join'](self, 0.5)
    return _REAL['join'](self, timeout)
  if getattr(lt, 'marked_stopped', False):
    return
  s.switch(me, 'thread.join:%s' % type(self).__name__)
  try:
    s.block_until(me, lambda: lt.state == 'done', timeout, 'thread.join.wait:%s' % type(self).__name__)
  except BaseException:
    if JOIN_INTERRUPT_MARKS_STOPPED and lt.state != 'done':
      # CPython <= 3.12 (bpo-45274 workaround in Thread._wait_for_tstate_lock): an exception raised by a signal
      # handler inside join() releases the still-held tstate lock and calls _stop(), so the thread is reported
      # finished from then on although it is still running.  The scheduler reproduces the interpreter it runs on.
      lt.marked_stopped = True
      vlog('join-interrupted-marks-stopped', lt.tid)
    raise


def _join_interrupt_marks_stopped():
  import inspect  # pylint: disable=g-import-not-at-top
  try:
    src = inspect.getsource(threading.Thread._wait_for_tstate_lock)  # pylint: disable=protected-access
  except (AttributeError, OSError, TypeError):
    return False
  return 'lock.locked()' in src and 'self._stop()' in src


JOIN_INTERRUPT_MARKS_STOPPED = _join_interrupt_marks_stopped()


def _thread_is_alive(self):
  lt = getattr(self, '_vf_lthread', None)
  s = ACTIVE['sched']
  if lt is None or s is None:
    return _REAL['is_alive'](self)
  return lt.state != 'done' and not getattr(lt, 'marked_stopped', False)


def _time():
  s = ACTIVE['sched']
  return s.now if s is not None else _REAL['time']()


def _sleep(d):
  s, me = current()
  if s is None or me is None:
    return _REAL['sleep'](d)
  if s.aborting:
    raise SchedulerAbort()
  s.block_until(me, lambda: False, max(d, 1e-9), 'sleep')
  s.deliver_async(me)


class _FakePythonApi(object):
  """ctypes.pythonapi stand-in: models PyThreadState_SetAsyncExc, forwards the rest."""

  def __init__(self, real):
    self._real = real

  def __getattr__(self, name):
    return getattr(self._real, name)

  def PyThreadState_SetAsyncExc(self, tid, exc):  # pylint: disable=invalid-name
    s = ACTIVE['sched']
    ident = tid.value if hasattr(tid, 'value') else tid
    exc = exc.value if hasattr(exc, 'value') else exc
    if s is None:
      return self._real.PyThreadState_SetAsyncExc(tid, ctypes.py_object(exc))
    lt = s.by_ident.get(ident)
    if lt is None or lt.state == 'done':
      return 0
    if exc is None:
      lt.pending_exc = None
      return 1
    lt.pending_exc = exc() if isinstance(exc, type) else exc
    s.log('async_exc', lt.name, type(lt.pending_exc).__name__)
    return 1


def yield_point(label='yield'):
  """Explicit scheduling point for harness-owned bodies; delivers async exceptions."""
  s, me = current()
  if s is None or me is None:
    return
  if s.aborting:
    raise SchedulerAbort()
  s.switch(me, label)
  s.deliver_async(me)


def vlog(*ev):
  s, me = current()
  if s is not None and me is not None:     # (a thread left over from an earlier execution is not part of this one)
    s.events.append(ev)


def _line_cb(code, lineno):
  s, me = current()
  if s is None or me is None or s.aborting:
    return None
  key = (code, lineno)
  if me.last_line == key:
    return None       # sys.monitoring may report one line twice (re-instrumentation artefact): not a new point
  me.last_line = key
  if s.line_watch and code.co_name in s.line_watch:
    s.events.append(('line', me.name, code.co_name, lineno, s.now))
  # Leaving a with-block is reported as a line event of the `with` line *before* __exit__ is called.  CPython checks
  # for signals / asynchronous exceptions after calls and on backward jumps, never between the end of the body and the
  # __exit__ call, so an exception injected here would skip a lock release that cannot be skipped in reality.
  hist = me.__dict__.setdefault('line_hist', {})
  prev = hist.get(code)
  hist[code] = lineno
  me.with_exit = bool(prev is not None and prev > lineno and _is_with_line(code, lineno))
  try:
    s.switch(me, 'L:%s:%d' % (code.co_name, lineno))
    if not me.with_exit:
      s.deliver_async(me)
  finally:
    me.with_exit = False
  return None


_WITH_LINES = {}


def _is_with_line(code, lineno):
  k = (code.co_filename, lineno)
  if k not in _WITH_LINES:
    import linecache  # pylint: disable=g-import-not-at-top
    _WITH_LINES[k] = linecache.getline(code.co_filename, lineno).lstrip().startswith(('with ', 'async with '))
  return _WITH_LINES[k]


class Installed(object):
  """Context manager installing the scheduler seams for one execution."""

  def __init__(self, sched, focus_targets=()):
    self.sched = sched
    self.focus_targets = list(focus_targets)
    self.saved = {}

  def __enter__(self):
    s = self.sched
    ACTIVE['sched'] = s
    s.register_main()
    self.saved['pythonapi'] = ctypes.pythonapi
    ctypes.pythonapi = _FakePythonApi(ctypes.pythonapi)
    threading.Lock = FakeLock
    threading.RLock = FakeRLock
    threading.Event = FakeEvent
    threading.Condition = FakeCondition
    threading.Thread.start = _thread_start
    threading.Thread.join = _thread_join
    threading.Thread.is_alive = _thread_is_alive
    time_mod.time = _time
    time_mod.monotonic = _time
    time_mod.sleep = _sleep
    queue_mod.time = _time
    # logging's module lock and the locks of already existing handlers
    self.saved['logging_lock'] = logging._lock  # pylint: disable=protected-access
    logging._lock = FakeRLock()  # pylint: disable=protected-access
    self.saved['handler_locks'] = []
    for wr in list(getattr(logging, '_handlerList', [])):
      h = wr() if callable(wr) else wr
      if h is not None and getattr(h, 'lock', None) is not None:
        self.saved['handler_locks'].append((h, h.lock))
        h.lock = FakeRLock()
    if self.focus_targets:
      linehook.ensure(self.focus_targets, _line_cb)
    return s

  def __exit__(self, etype, evalue, tb):
    s = self.sched
    # (line hooks stay installed for the life of the process; the callback is inert without an active scheduler)
    # tear down: release every parked thread
    s.aborting = True
    for t in s.threads[1:]:
      if t.state != 'done':
        try:
          t.baton.release()
        except RuntimeError:
          pass
    for t in s.threads[1:]:
      if t.pythread is not None:
        try:
          _REAL['join'](t.pythread, 2.0)
        except RuntimeError:
          pass
    threading.Lock = _REAL['Lock']
    threading.RLock = _REAL['RLock']
    threading.Event = _REAL['Event']
    threading.Condition = _REAL['Condition']
    threading.Thread.start = _REAL['start']
    threading.Thread.join = _REAL['join']
    threading.Thread.is_alive = _REAL['is_alive']
    time_mod.time = _REAL['time']
    time_mod.monotonic = _REAL['monotonic']
    time_mod.sleep = _REAL['sleep']
    queue_mod.time = _REAL['queue_time']
    ctypes.pythonapi = self.saved['pythonapi']
    logging._lock = self.saved['logging_lock']  # pylint: disable=protected-access
    for h, lk in self.saved['handler_locks']:
      h.lock = lk
    ACTIVE['sched'] = None
    return etype is not None and issubclass(etype, SchedulerAbort)
