"""Engine S explorer: stateless DFS over scheduling choices with deviation bounding.

An *execution* is produced by `execute(choices) -> Exec` where the harness runs
its scenario under a Scheduler whose chooser replays `choices` and then always
takes alternative 0.  `Exec.points` lists every decision point (number of
alternatives, whether the running thread was still enabled, alternative
kinds); `Exec.result` is whatever the harness observed (must be picklable).

Cost of taking alternative a != 0 at a point:
  the running thread is still enabled  -> 1 (preemption / early timer / signal)
  otherwise: another 'run' thread      -> 0 (a forced switch is free)
             'timer' while some thread is runnable, or 'signal' -> 1
"""
import collections

from vf import common
from vf.sched import runtime


class Exec(object):

  def __init__(self, choices, points, result, failure, steps, trace_len, state_hashes):
    self.choices = choices
    self.points = points
    self.result = result
    self.failure = failure
    self.steps = steps
    self.trace_len = trace_len
    self.state_hashes = state_hashes


class ReplayChooser(object):

  def __init__(self, prefix):
    self.prefix = list(prefix)
    self.i = 0

  def __call__(self, n, info):
    i = self.i
    self.i += 1
    if i < len(self.prefix):
      c = self.prefix[i]
      if c >= n:
        raise runtime.Divergence('replay: choice %d but only %d alternatives at point %d (%s)' % (c, n, i, info.get('label')))
      return c
    return 0


FREE_FORCED = [True]


def alt_cost(point, alt):
  """Cost of a non-default choice.  With FREE_FORCED off every departure from the default schedule costs 1
  (pure deviation bounding); with it on, switches at points where the running thread cannot continue are free
  (CHESS preemption bounding)."""
  if alt == 0:
    return 0
  if not FREE_FORCED[0]:
    return 0 if point['kinds'][alt] in ('gate0', 'signal0') else 1
  if point['kinds'][alt] in ('gate0', 'signal0'):
    return 0      # an external trigger the harness declared free (e.g. the operator's abort / Ctrl-C)
  if point['cur_enabled']:
    return 1
  kind = point['kinds'][alt]
  if kind == 'gate0':
    return 0
  if kind == 'run':
    return 0
  return 1 if 'run' in point['kinds'] or kind == 'signal' else 0


def children(ex, prefix_len, used, bound):
  """Yields (choices, cost_used) for every admissible deviation after the prefix."""
  choices = [p['choice'] for p in ex.points]
  for i in range(prefix_len, len(ex.points)):
    p = ex.points[i]
    for alt in range(1, p['n']):
      c = used + alt_cost(p, alt)
      if c <= bound:
        yield choices[:i] + [alt], c
    used_here = alt_cost(p, p['choice'])  # 0 beyond the prefix (default choice), kept for clarity
    used += used_here


_HARNESS = {}
LOCAL_BUDGET = 40


def _chunk(item):
  """Worker: explores up to LOCAL_BUDGET executions below a prefix (DFS); returns the unexplored rest."""
  key, prefix, used, bound, free_forced = item
  FREE_FORCED[0] = free_forced
  execute, check = _HARNESS[key]
  stack = [(prefix, used)]
  n = steps = 0
  viols = []
  outcomes = collections.Counter()
  hashes = set()
  sample = None
  while stack and n < LOCAL_BUDGET:
    pre, u = stack.pop()
    ex = execute(pre)
    if isinstance(ex.failure, runtime.Divergence):
      raise runtime.Divergence('nondeterminism while replaying prefix %r: %s' % (pre, ex.failure))
    n += 1
    steps += ex.steps
    hashes |= ex.state_hashes
    viols.extend(check(ex))
    okey = ex.result.get('outcome_key') if isinstance(ex.result, dict) else None
    outcomes[repr(okey)] += 1
    if sample is None and pre:
      sample = {'choices': pre, 'decision_points': len(ex.points), 'outcome': repr(okey)[:200]}
    stack.extend(children(ex, len(pre), u, bound))
  return n, steps, viols, dict(outcomes), hashes, stack, sample


PLAN = {'deadline': None, 'calls_left': 0}


def set_plan(total_s, n_calls):
  """Wall-clock plan for the explore() calls of one check run (thorough tier): every call gets an equal share of what is
  left, so time a small configuration does not use goes to the later ones.  A call that runs out of its share stops
  and reports capped=True, cap_reason='time' -- never 'exhaustive'."""
  import time  # pylint: disable=g-import-not-at-top
  if total_s is None:
    PLAN['deadline'], PLAN['calls_left'] = None, 0
  else:
    PLAN['deadline'], PLAN['calls_left'] = time.time() + total_s, max(1, n_calls)


def _take_share():
  import time  # pylint: disable=g-import-not-at-top
  if PLAN['deadline'] is None:
    return None
  left = max(5.0, PLAN['deadline'] - time.time())
  share = left / max(1, PLAN['calls_left'])
  PLAN['calls_left'] = max(1, PLAN['calls_left'] - 1)
  return time.time() + max(5.0, share)


def explore(key, execute, check, bound, cap=200000, split=None, free_forced=True):
  """Explores all executions with at most `bound` deviations (stateless DFS, parallel).

  Returns dict(executions, steps, violations, outcomes, states, capped, default_points, samples).
  `check(ex)` returns a list of (signature, what, replay) tuples.
  """
  import multiprocessing  # pylint: disable=g-import-not-at-top
  import time as _time  # pylint: disable=g-import-not-at-top
  stop_at = _take_share()
  _HARNESS[key] = (execute, check)
  FREE_FORCED[0] = free_forced
  # determinism self-check: the default schedule twice
  a = execute([])
  b = execute([])
  if [(p['n'], p['label']) for p in a.points] != [(p['n'], p['label']) for p in b.points] or repr(a.result) != repr(b.result):
    early = list(check(a)) + list(check(b))
    if early:
      # The same (default) schedule behaved differently when run a second time in this process *and* violates the
      # property: state of the code under test leaks from one run into the next.  Report what was observed.
      return {'executions': 2, 'steps': a.steps + b.steps, 'violations': early, 'outcomes': {}, 'states': len(a.state_hashes | b.state_hashes),
              'capped': True, 'default_points': len(a.points), 'samples': [], 'default_labels': [], 'nondeterministic': True}
    raise runtime.Divergence('harness %s is not deterministic under the default schedule:\n%r\nvs\n%r'
                             % (key, [(p['n'], p['label']) for p in a.points][:40], [(p['n'], p['label']) for p in b.points][:40]))
  done = 1
  steps = a.steps
  viols = list(check(a))
  outcomes = collections.Counter()
  outcomes[repr(a.result.get('outcome_key') if isinstance(a.result, dict) else None)] += 1
  hashes = set(a.state_hashes)
  stack = list(children(a, 0, 0, bound))
  samples = []
  capped = False
  jobs = common.NCPU
  ctx = multiprocessing.get_context('fork')
  pool = ctx.Pool(jobs) if jobs > 1 and stack else None
  try:
    while stack:
      if done >= cap:
        capped = True
        break
      if stop_at is not None and _time.time() > stop_at:
        capped = 'time'
        break
      batch = [stack.pop() for _ in range(min(len(stack), jobs * 4))]
      items = [(key, pre, u, bound, free_forced) for pre, u in batch]
      if pool is not None:
        res = pool.map(_chunk_guard, items, 1)
      else:
        res = [_chunk_guard(i) for i in items]
      for r in res:
        if r[0] == 'err':
          raise RuntimeError('explorer worker failed:\n' + r[1])
        n, st, v, oc, hs, rest, smp = r[1]
        done += n
        steps += st
        viols.extend(v)
        outcomes.update(oc)
        hashes |= hs
        stack.extend(rest)
        if smp and len(samples) < 3:
          samples.append(smp)
  finally:
    if pool is not None:
      pool.terminate()
      pool.join()
  return {'executions': done, 'steps': steps, 'violations': viols, 'outcomes': dict(outcomes),
          'states': len(hashes), 'capped': bool(capped), 'cap_reason': ('time budget' if capped == 'time' else 'execution cap') if capped else None,
          'default_points': len(a.points), 'samples': samples,
          'default_labels': [p['label'] for p in a.points][:60]}


def _chunk_guard(item):
  import traceback  # pylint: disable=g-import-not-at-top
  try:
    return ('ok', _chunk(item))
  except BaseException:  # pylint: disable=broad-except
    return ('err', traceback.format_exc())


def run_under_scheduler(fn, choices, focus_targets=(), focus_files=(), max_steps=20000, signals=0, signal_handler=None,
                        horizon=1e9, line_watch=(), op_watch=()):
  """Runs fn() as logical thread 0 under a scheduler replaying `choices`.

  Returns (sched, value_or_exception).
  """
  chooser = ReplayChooser(choices)
  sched = runtime.Scheduler(chooser, max_steps=max_steps, focus_files=focus_files, signals=signals,
                            signal_handler=signal_handler, horizon=horizon)
  sched.line_watch = tuple(line_watch)
  sched.op_watch = tuple(op_watch)
  value = None
  with runtime.Installed(sched, focus_targets):
    try:
      value = fn(sched)
    except runtime.SchedulerAbort:
      value = ('aborted', repr(sched.failure))
    except BaseException as e:  # pylint: disable=broad-except
      if sched.failure is None and not isinstance(e, (Exception, KeyboardInterrupt)):
        raise
      value = ('exception', e)
  return sched, value
