"""Test-program specs: building real openhtf node trees from JSON-able specs,
running them, and enumerating shapes.

Spec grammar (lists, JSON-able):
  ['p', beh]                     phase leaf; beh is a dict (see make_phase)
  ['c', kind, action]            checkpoint; kind in last|all|subtest|any:A|not_any:A ; action stop|fs
  ['seq', [nodes]]
  ['grp', [setup], [main], [teardown]]
  ['sub', [nodes]]
  ['br', [cond, [results]], [nodes]]   cond in any|all|not_any|not_all
Leaves are named in pre-order: p0.., c0.., s0.. (subtests), b0.. (branches), g0.. (groups).
"""
import enum
import itertools
import os
import sys
import tempfile
import threading
import time
import weakref

from vf import htf

RESULTS = ('A', 'B', 'FA', 'FB', 'TA', 'TF')


class PhaseBoom(Exception):
  pass


class FailureBase(Exception):
  """Base class of the listed failure exception: never listed itself."""


class FailureExc(FailureBase):
  """Listed in failure_exceptions when the setting says so."""


class FailureSub(FailureExc):
  """Subclass of the listed failure exception: counts as listed."""


class DiagBoom(Exception):
  pass


_cache = {}


class ClockShim(object):
  """Stands in for the `time` module inside openhtf.core.phase_executor.

  A generated body that "never returns" registers its thread in HANGING.  While
  the executor polls the deadline of such a thread (join_or_die calls
  time.monotonic()), every poll advances this clock by HANG_JUMP seconds, so
  the phase timeout expires without waiting in real time and without touching
  the deadline of any other phase.  Everything else is real time.
  """
  HANG_JUMP = 100000.0

  def __init__(self):
    self.offset = 0.0
    self.hanging = weakref.WeakSet()

  def monotonic(self):
    caller = sys._getframe(1).f_locals.get('self')  # pylint: disable=protected-access
    if isinstance(caller, threading.Thread) and caller in self.hanging:
      self.offset += self.HANG_JUMP
    return time.monotonic() + self.offset

  def time(self):
    return time.time()

  def sleep(self, s):
    time.sleep(s)


CLOCK = ClockShim()
SLOW_S = 100.0     # default phase timeout is 180 s
CURRENT = {'ctx': None}


def lib():
  """Lazily import openhtf pieces (after htf.init())."""
  if _cache:
    return _cache
  htf.init()
  import openhtf  # pylint: disable=g-import-not-at-top
  from openhtf.core import diagnoses_lib, phase_branches, phase_collections, phase_group, phase_executor, test_record  # pylint: disable=g-import-not-at-top
  from openhtf.util import configuration  # pylint: disable=g-import-not-at-top

  class R(diagnoses_lib.DiagResultEnum):
    A = 'a'
    B = 'b'
    FA = 'fa'
    FB = 'fb'
    TA = 'ta'
    TF = 'tf'

  phase_executor.time = CLOCK
  phase_executor._JOIN_TRY_INTERVAL_SECONDS = 0.002  # pylint: disable=protected-access
  from openhtf import plugs as plugs_mod  # pylint: disable=g-import-not-at-top
  from openhtf.core import base_plugs  # pylint: disable=g-import-not-at-top

  class LogPlug(base_plugs.BasePlug):
    """Logs its construction and tearDown into the current run's call log."""

    def __init__(self):
      if CURRENT['ctx'] is not None:
        CURRENT['ctx'].calls.append(('plug_init', 'LogPlug'))

    def tearDown(self):
      if CURRENT['ctx'] is not None:
        CURRENT['ctx'].calls.append(('plug_teardown', 'LogPlug'))

  _cache.update(plugs=plugs_mod, LogPlug=LogPlug)
  _cache.update(htf=openhtf, dl=diagnoses_lib, pb=phase_branches, pc=phase_collections, pg=phase_group,
                pe=phase_executor, tr=test_record, conf=configuration.CONF, R=R)
  return _cache


def number(spec_nodes):
  """Returns (annotated tree, counts): every node gets a name, pre-order."""
  counters = {'p': 0, 'c': 0, 's': 0, 'b': 0, 'g': 0, 'q': 0}

  def name(kind):
    n = '%s%d' % (kind, counters[kind])
    counters[kind] += 1
    return n

  def walk(node):
    k = node[0]
    if k == 'p':
      return {'k': 'p', 'name': name('p'), 'beh': node[1]}
    if k == 'c':
      return {'k': 'c', 'name': name('c'), 'kind': node[1], 'action': node[2]}
    if k == 'seq':
      return {'k': 'seq', 'name': name('q'), 'nodes': [walk(n) for n in node[1]]}
    if k == 'grp':
      nm = name('g')
      return {'k': 'grp', 'name': nm, 'setup': [walk(n) for n in node[1]], 'main': [walk(n) for n in node[2]],
              'teardown': [walk(n) for n in node[3]]}
    if k == 'sub':
      nm = name('s')
      return {'k': 'sub', 'name': nm, 'nodes': [walk(n) for n in node[1]]}
    if k == 'br':
      nm = name('b')
      return {'k': 'br', 'name': nm, 'cond': node[1], 'nodes': [walk(n) for n in node[2]]}
    raise AssertionError(node)

  return [walk(n) for n in spec_nodes], counters


def per_inv(v, i):
  if isinstance(v, list):
    return v[min(i, len(v) - 1)]
  return v


class RunCtx(object):
  """Per-run mutable log shared by generated bodies."""

  def __init__(self):
    self.calls = []       # ('p0', n) body invocations, ('diag', 'p0', idx), ('run_if', 'p0')
    self.counts = {}
    self.over = False     # set when execute() has returned: lets deliberately deaf bodies end


class NoCopy(object):
  """A validator object whose deep copy raises."""

  def __call__(self, value):
    return True

  def __deepcopy__(self, memo):
    raise RuntimeError('this validator cannot be copied')


def make_phase(name, beh, ctx):
  L = lib()
  h = L['htf']
  rets = beh.get('ret', ['ok'])
  meas = beh.get('meas', 'none')
  opts = dict(beh.get('opts', {}))

  def body(test):
    n = ctx.counts[name] = ctx.counts.get(name, 0) + 1
    ctx.calls.append((name, n))
    r = per_inv(rets, n - 1)
    m = per_inv(meas, n - 1)
    if m == 'pass':
      test.measurements['m_' + name] = 5
    elif m == 'fail':
      test.measurements['m_' + name] = 11
    elif m == 'marg':
      test.measurements['m_' + name] = 9.5
    elif m == 'dimset':
      test.measurements['m_' + name][1] = 5
    elif m in ('dimbad', 'dimgood'):
      test.measurements['m_' + name][n] = 11 if m == 'dimbad' else 5      # (coordinate = invocation number)
    if r == 'hang':
      CLOCK.hanging.add(threading.current_thread())
      while True:
        time.sleep(0.0005)
    if r == 'hangswallow':
      # never returns by itself; when the termination request arrives, its clean-up swallows it and the body returns
      # normally -- after the timeout has already been decided
      CLOCK.hanging.add(threading.current_thread())
      try:
        while not ctx.over:
          time.sleep(0.0005)
      except BaseException:  # pylint: disable=broad-except
        pass
      return None
    if r == 'hangdeaf':
      # never returns and ignores the termination request too (stuck in a call that cannot be interrupted): the
      # executor leaves the thread behind alive; it ends when the harness says the run is over
      CLOCK.hanging.add(threading.current_thread())
      while not ctx.over:
        try:
          time.sleep(0.0005)
        except BaseException:  # pylint: disable=broad-except
          pass
      return None
    if r in ('slowrepeat', 'slowok'):
      # a body that takes more than half of the phase timeout (on the executor's clock): two such attempts together
      # exceed it, each one alone does not
      CLOCK.offset += SLOW_S
      time.sleep(0.02)           # still running when the executor next looks at its deadline
      return h.PhaseResult.REPEAT if r == 'slowrepeat' else None
    if r == 'raise':
      raise PhaseBoom('boom in %s' % name)
    if r == 'sysexit':
      raise SystemExit(3)       # a BaseException that is not an Exception: the phase thread dies without a result
    if r == 'raise_f':
      raise FailureExc('failure exception in %s' % name)
    if r == 'raise_fsub':
      raise FailureSub('subclass of the failure exception in %s' % name)
    if r == 'raise_fbase':
      raise FailureBase('base class of the failure exception in %s' % name)
    return {'ok': None, 'continue': h.PhaseResult.CONTINUE, 'fail': h.PhaseResult.FAIL_AND_CONTINUE,
            'skip': h.PhaseResult.SKIP, 'stop': h.PhaseResult.STOP, 'fail_subtest': h.PhaseResult.FAIL_SUBTEST,
            'repeat': h.PhaseResult.REPEAT, 'bad': 42, 'bad0': 0,
            # plain strings that merely equal an enum member's value are not PhaseResults
            'badstr': 'CONTINUE', 'badrep': 'REPEAT'}[r]

  body.__name__ = name
  kw = {}
  run_if = opts.pop('run_if', None)
  if run_if is not None:
    def run_if_fn():
      ctx.calls.append(('run_if', name))
      if run_if == 'raise':
        raise PhaseBoom('run_if failed')
      if run_if == 'once':     # a one-shot gate: true the first time it is asked, false afterwards
        k = ctx.counts['runif:' + name] = ctx.counts.get('runif:' + name, 0) + 1
        return k == 1
      if run_if in ('none', 'zero', 'empty'):     # falsy verdicts that are not the object False
        return {'none': None, 'zero': 0, 'empty': ''}[run_if]
      return run_if == 'true'
    kw['run_if'] = run_if_fn
  kw.update(opts)
  ph = h.PhaseOptions(name=name, **kw)(body)
  if meas == 'nocopy':
    # a validator that cannot be deep-copied: building the phase state fails *inside the executor thread*
    ph = h.measures(h.Measurement('m_' + name).with_validator(NoCopy()))(ph)
  elif meas in ('dimbad', 'dimgood') or (isinstance(meas, list) and set(meas) <= {'dimbad', 'dimgood'}):
    # a dimensioned measurement whose points must all lie in [0, 10]
    from openhtf.util import validators as _v  # pylint: disable=g-import-not-at-top
    ph = h.measures(h.Measurement('m_' + name).with_dimensions('x').with_validator(
        _v.dimension_pivot_validate(_v.in_range(0, 10))))(ph)
  elif meas in ('dimunset', 'dimset'):
    # a dimensioned measurement without validators: 'dimunset' never gives it a point, 'dimset' gives it one
    ph = h.measures(h.Measurement('m_' + name).with_dimensions('x'))(ph)
  elif meas != 'none':
    ph = h.measures(h.Measurement('m_' + name).in_range(0, 10, marginal_maximum=9))(ph)
  if beh.get('plug'):
    ph = L['plugs'].plug(update_kwargs=False, lp=L['LogPlug'])(ph)
  diags = beh.get('diag') or []
  if not isinstance(diags, list):
    diags = [diags]
  dobjs = []
  for idx, d in enumerate(diags):
    dobjs.append(make_phase_diag(name, idx, d, ctx))
  if dobjs:
    ph = h.diagnose(*dobjs)(ph)
  return ph


def make_phase_diag(pname, idx, d, ctx):
  L = lib()
  dl, R = L['dl'], L['R']

  def run(phase_record):
    ctx.calls.append(('diag', pname, idx))
    if d == 'raise':
      raise DiagBoom('diagnoser failed')
    if d == 'none':
      return None
    if d == 'iA':
      return dl.Diagnosis(R.A, 'internal', is_internal=True)
    if d == 'AFlist':      # an always-fail diagnoser handing back several plain diagnoses at once
      return [dl.Diagnosis(R.A, 'descr'), dl.Diagnosis(R.B, 'descr')]
    if d == 'AF1':         # an always-fail diagnoser handing back one plain diagnosis
      return dl.Diagnosis(R.A, 'descr')
    if d == 'ABlist':      # an ordinary diagnoser handing back a tuple of plain diagnoses
      return (dl.Diagnosis(R.A, 'descr'), dl.Diagnosis(R.B, 'descr'))
    return dl.Diagnosis(getattr(R, d), 'descr', is_failure=d.startswith('F'))

  run.__name__ = 'diag_%s_%d' % (pname, idx)
  return dl.PhaseDiagnoser(R, name=run.__name__, always_fail=d in ('AFlist', 'AF1'))(run)


def make_test_diag(idx, d, ctx):
  L = lib()
  dl, R = L['dl'], L['R']

  def run(test_record, store):
    ctx.calls.append(('tdiag', idx))
    if d == 'raise':
      raise DiagBoom('test diagnoser failed')
    if d == 'none':
      return None
    # 'TFok' = the result value TF reported as a non-failure diagnosis
    return dl.Diagnosis(getattr(R, d[:2]), 'descr', is_failure=(d == 'TF'))

  if d == 'TFgen':
    # the same failure diagnosis, handed back by a generator (a one-shot iterable)
    def run(test_record, store):  # pylint: disable=function-redefined
      ctx.calls.append(('tdiag', idx))
      yield dl.Diagnosis(R.TF, 'descr', is_failure=True)

  run.__name__ = 'tdiag_%d' % idx
  return dl.TestDiagnoser(R, name=run.__name__)(run)


def build_nodes(tree, ctx):
  L = lib()
  h, pb, pc, R = L['htf'], L['pb'], L['pc'], L['R']

  def cond_of(c):
    kind, results = c
    fn = {'any': pb.DiagnosisCondition.on_any, 'all': pb.DiagnosisCondition.on_all,
          'not_any': pb.DiagnosisCondition.on_not_any, 'not_all': pb.DiagnosisCondition.on_not_all}[kind]
    return fn(*[getattr(R, r) for r in results])

  def walk(n):
    k = n['k']
    if k == 'p':
      return make_phase(n['name'], n['beh'], ctx)
    if k == 'c':
      action = h.PhaseResult.STOP if n['action'] == 'stop' else h.PhaseResult.FAIL_SUBTEST
      kind = n['kind']
      if kind == 'last':
        return pb.PhaseFailureCheckpoint.last(n['name'], action=action)
      if kind == 'all':
        return pb.PhaseFailureCheckpoint.all_previous(n['name'], action=action)
      if kind == 'subtest':
        return pb.PhaseFailureCheckpoint.subtest_previous(n['name'], action=action)
      ckind, res = kind.split(':')
      return pb.DiagnosisCheckpoint(n['name'], cond_of([ckind, res.split(',')]), action=action)
    if k == 'seq':
      return pc.PhaseSequence(*[walk(c) for c in n['nodes']], name=n['name'])
    if k == 'grp':
      return h.PhaseGroup(setup=[walk(c) for c in n['setup']] or None, main=[walk(c) for c in n['main']] or None,
                          teardown=[walk(c) for c in n['teardown']] or None, name=n['name'])
    if k == 'sub':
      return pc.Subtest(n['name'], *[walk(c) for c in n['nodes']])
    if k == 'br':
      return pb.BranchSequence(cond_of(n['cond']), *[walk(c) for c in n['nodes']], name=n['name'])
    raise AssertionError(n)

  return [walk(n) for n in tree]


def result_kind(res):
  """Normalises a PhaseExecutionOutcome (or None) for comparison."""
  L = lib()
  if res is None:
    return 'NONE'
  pr = res.phase_result
  if pr is None:
    return 'TIMEOUT'
  if isinstance(pr, L['pe'].ExceptionInfo):
    return 'EXC:' + pr.exc_type.__name__
  if isinstance(pr, L['htf'].PhaseResult):
    return pr.name
  return 'KILLED' if type(pr).__name__ == 'ThreadTerminationError' else 'OTHER:' + type(pr).__name__


def run_spec(spec_nodes, settings=None, extra_callbacks=(), test_start=None, keep_record=False):
  """Executes the program on the real executor; returns the observation dict."""
  L = lib()
  settings = settings or {}
  tree, _ = number(spec_nodes)
  ctx = RunCtx()
  CURRENT['ctx'] = ctx
  nodes = build_nodes(tree, ctx)
  options = {}
  if settings.get('sof') == 'option':
    options['stop_on_first_failure'] = True
  if settings.get('failure_exceptions'):
    options['failure_exceptions'] = [FailureExc]
  conf_loaded = {}
  if settings.get('sof') == 'conf':
    conf_loaded['stop_on_first_failure'] = True
  if settings.get('allow_unset'):
    conf_loaded['allow_unset_measurements'] = True
  if settings.get('capture_source'):
    conf_loaded['capture_source'] = True      # (Test() then rebuilds the whole node tree through load_code_info())
  tdiags = [make_test_diag(i, d, ctx) for i, d in enumerate(settings.get('test_diag') or [])]
  conf = L['conf']
  if conf_loaded:
    conf.load(**conf_loaded)
  prof = None
  if settings.get('profile'):
    prof = os.path.join(tempfile.gettempdir(), 'vf-prof-%d' % os.getpid())
  try:
    res, recs, test, thread_errors = htf.run_test(nodes, test_start=test_start, callbacks=extra_callbacks,
                                                  options=options, diagnosers=tdiags, profile_filename=prof)
  finally:
    ctx.over = True
    if conf_loaded:
      conf.reset()
    if prof and os.path.exists(prof):
      os.remove(prof)
  obs = {'ret': res if isinstance(res, bool) else 'EXC:%s' % type(res).__name__, 'calls': list(ctx.calls),
         'thread_errors': thread_errors, 'n_records': len(recs)}
  if recs:
    rec = recs[0]
    obs['outcome'] = rec.outcome.name if rec.outcome else None
    obs['phases'] = [(p.name, p.outcome.name if p.outcome else None, result_kind(p.result), p.subtest_name,
                      tuple(sorted(r.name for r in p.diagnosis_results)),
                      tuple(sorted(r.name for r in p.failure_diagnosis_results)),
                      tuple(sorted((k, m.outcome.name) for k, m in p.measurements.items())))
                     for p in rec.phases]
    obs['subtests'] = [(s.name, s.outcome.name) for s in rec.subtests]
    obs['branches'] = [(b.name, b.branch_taken) for b in rec.branches]
    obs['checkpoints'] = [(c.name, result_kind(c.result), c.subtest_name) for c in rec.checkpoints]
    obs['diagnoses'] = [(d.result.name, bool(d.is_failure)) for d in rec.diagnoses]
    obs['details'] = [d.code for d in rec.outcome_details]
    if keep_record:
      obs['record'] = rec
  return obs


# ---- shape enumeration ---------------------------------------------------------
def compositions(n, parts):
  """All ways to write n as an ordered sum of `parts` non-negative ints."""
  if parts == 1:
    yield (n,)
    return
  for i in range(n + 1):
    for rest in compositions(n - i, parts - 1):
      yield (i,) + rest


def shapes(n_leaves, depth, kinds, in_teardown=False, in_subtest=False):
  """Yields node *lists* with exactly n_leaves leaf slots.

  A leaf slot is ['p', None] or ['c', None, None]; behaviours are filled in later.
  kinds: subset of {'c','seq','grp','sub','br'} allowed as containers/checkpoints.
  """
  if n_leaves == 0:
    yield []
    return
  # first node uses k leaves, the rest n-k
  for k in range(1, n_leaves + 1):
    for first in single(k, depth, kinds, in_teardown, in_subtest):
      for rest in shapes(n_leaves - k, depth, kinds, in_teardown, in_subtest):
        yield [first] + rest


def single(k, depth, kinds, in_teardown, in_subtest):
  if k == 1:
    yield ['p', None]
    if 'c' in kinds:
      yield ['c', None, None]
  if depth <= 0:
    return
  if 'seq' in kinds and k >= 1:
    for body in shapes(k, depth - 1, kinds, in_teardown, in_subtest):
      if len(body) >= 1:
        yield ['seq', body]
  if 'sub' in kinds and not in_teardown:
    for body in shapes(k, depth - 1, kinds, in_teardown, True):
      yield ['sub', body]
  if 'br' in kinds:
    for body in shapes(k, depth - 1, kinds, in_teardown, in_subtest):
      yield ['br', None, body]
  if 'grp' in kinds and not in_teardown:
    for a, b, c in compositions(k, 3):
      for s in shapes(a, depth - 1, kinds, in_teardown, in_subtest):
        for m in shapes(b, depth - 1, kinds, in_teardown, in_subtest):
          # teardown sequences: only phases/checkpoints/sequences/branches (see DESIGN R1)
          for t in shapes(c, depth - 1, [x for x in kinds if x in ('c', 'seq', 'br')], True, in_subtest):
            yield ['grp', s, m, t]


def fill(shape_nodes, leaf_choices, ckpt_choices, branch_choices):
  """All assignments of behaviours to the slots of a shape."""
  slots = []

  def collect(nodes):
    for n in nodes:
      if n[0] == 'p':
        slots.append(('p', n))
      elif n[0] == 'c':
        slots.append(('c', n))
      elif n[0] == 'seq' or n[0] == 'sub':
        collect(n[1])
      elif n[0] == 'br':
        slots.append(('b', n))
        collect(n[2])
      elif n[0] == 'grp':
        collect(n[1]); collect(n[2]); collect(n[3])

  collect(shape_nodes)
  domains = [leaf_choices if k == 'p' else (ckpt_choices if k == 'c' else branch_choices) for k, _ in slots]
  for combo in itertools.product(*domains):
    def rebuild(nodes, it):
      out = []
      for n in nodes:
        if n[0] == 'p':
          out.append(['p', next(it)])
        elif n[0] == 'c':
          kind, action = next(it)
          out.append(['c', kind, action])
        elif n[0] == 'seq':
          out.append(['seq', rebuild(n[1], it)])
        elif n[0] == 'sub':
          out.append(['sub', rebuild(n[1], it)])
        elif n[0] == 'br':
          cond = next(it)
          out.append(['br', cond, rebuild(n[2], it)])
        elif n[0] == 'grp':
          out.append(['grp', rebuild(n[1], it), rebuild(n[2], it), rebuild(n[3], it)])
      return out
    yield rebuild(shape_nodes, iter(combo))
