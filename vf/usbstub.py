"""Makes openhtf.plugs.usb submodules importable without libusb1/usb1/M2Crypto.

The package __init__ imports the real USB stack; we pre-seed a bare package
object (so __init__ is skipped) and a tiny libusb1 stub.  Nothing in /repo is
changed.
"""
import os
import sys
import types


def install():
  if 'openhtf.plugs.usb' in sys.modules:
    return
  import openhtf.plugs  # pylint: disable=g-import-not-at-top
  base = os.path.join(os.path.dirname(openhtf.plugs.__file__), 'usb')
  pkg = types.ModuleType('openhtf.plugs.usb')
  pkg.__path__ = [base]
  sys.modules['openhtf.plugs.usb'] = pkg
  if 'libusb1' not in sys.modules:
    lib = types.ModuleType('libusb1')
    lib.LIBUSB_ERROR_TIMEOUT = -7

    class USBError(Exception):

      def __init__(self, value=None):
        super().__init__(value)
        self.value = value

    lib.USBError = USBError
    sys.modules['libusb1'] = lib
