"""Shared plumbing: evidence files, violations, known findings, parallel map."""
import collections
import fnmatch
import hashlib
import json
import multiprocessing
import os
import sys
import time
import traceback

ROOT = os.path.dirname(os.path.dirname(os.path.abspath(__file__)))
EVIDENCE_DIR = os.path.join(ROOT, 'evidence')
REPLAY_NEW = os.path.join(ROOT, 'replays', 'new')
KNOWN_FILE = os.path.join(ROOT, 'known_findings.json')
MAX_PRINT = int(os.environ.get('VERIF_MAXPRINT', '12'))
NCPU = int(os.environ.get('VERIF_JOBS', os.cpu_count() or 4))


def seed():
  try:
    return int(os.environ.get('VERIF_SEED', '0'))
  except ValueError:
    return 0


def jsonable(o, depth=0):
  """Best-effort conversion for replay/evidence files."""
  if depth > 12:
    return repr(o)
  if o is None or isinstance(o, (bool, int, str)):
    return o
  if isinstance(o, float):
    if o != o or o in (float('inf'), float('-inf')):
      return repr(o)
    return o
  if isinstance(o, bytes):
    return {'__bytes__': o.hex()}
  if isinstance(o, dict):
    return {str(k): jsonable(v, depth + 1) for k, v in o.items()}
  if isinstance(o, (list, tuple, set, frozenset)):
    return [jsonable(v, depth + 1) for v in o]
  return repr(o)


class Violation(object):

  def __init__(self, sig, what, replay):
    self.sig = sig
    self.what = what
    self.replay = replay


def load_known():
  try:
    with open(KNOWN_FILE) as f:
      return json.load(f).get('findings', [])
  except FileNotFoundError:
    return []


class Report(object):
  """Collects what one check run covered and what it found."""

  def __init__(self, pid, tier, level):
    self.pid = pid
    self.tier = tier
    self.level = level
    self.t0 = time.time()
    self.violations = collections.OrderedDict()  # sig -> Violation
    self.coverage = {}
    self.assumptions = []
    self.parts = []

  def violation(self, sig, what, replay=None):
    if sig not in self.violations:
      self.violations[sig] = Violation(sig, what, replay)

  def merge_violations(self, items):
    for sig, what, replay in items:
      self.violation(sig, what, replay)

  def add_part(self, name, **kw):
    """Record coverage of one sub-check; numbers are summed by finish()."""
    d = dict(kw)
    d['part'] = name
    self.parts.append(d)

  def finish(self, **extra):
    known = [k for k in load_known() if k.get('property') == self.pid and
             k.get('status') == 'known']
    new, old = [], []
    for v in self.violations.values():
      hit = None
      for k in known:
        if v.sig == k['match'] or fnmatch.fnmatchcase(v.sig, k['match']):
          hit = k
          break
      (old if hit else new).append((v, hit))
    os.makedirs(REPLAY_NEW, exist_ok=True)
    printed = set()
    for v, k in old:
      if k['match'] in printed:
        continue
      printed.add(k['match'])
      print('KNOWN-FINDING: property=%s %s [%s]' % (self.pid, k['what'], k['match']))
    rc = 0
    if len(new) > MAX_PRINT:
      print('(%d distinct violations; reporting the first %d)' % (len(new), MAX_PRINT))
    for v, _ in new[:MAX_PRINT]:
      h = hashlib.sha1(v.sig.encode()).hexdigest()[:10]
      path = os.path.join(REPLAY_NEW, '%s-%s.json' % (self.pid, h))
      with open(path, 'w') as f:
        json.dump({'property': self.pid, 'signature': v.sig, 'what': v.what,
                   'replay': jsonable(v.replay)}, f, indent=1, sort_keys=True)
      print('VIOLATION property=%s replay=%s' % (self.pid, path))
      print('  signature: %s' % v.sig)
      print('  what: %s' % v.what[:2000])
      rc = 1
    cov = dict(self.coverage)
    # Sum the integer counters of the parts.
    for key in ('states', 'transitions', 'traces_validated_against_impl',
                'evaluations', 'distinct_nontrivial'):
      tot = sum(p.get(key, 0) for p in self.parts if isinstance(p.get(key), int))
      if any(key in p for p in self.parts):
        cov[key] = cov.get(key, 0) + tot
    if self.parts:
      cov['parts'] = self.parts
      samples = []
      for p in self.parts:
        for s in p.get('samples', [])[:3]:
          samples.append({'part': p['part'], 'case': s})
      cov.setdefault('samples', samples or ['(no samples)'])
      if all('exhaustive' in p for p in self.parts):
        cov.setdefault('exhaustive', all(p['exhaustive'] for p in self.parts))
      for p in self.parts:
        p.pop('samples', None)
    cov.update(extra)
    cov['known_findings_matched'] = sorted(printed)
    ev = {
        'property_id': self.pid,
        'tier': self.tier,
        'seed': seed(),
        'level': self.level,
        'coverage': jsonable(cov),
        'assumptions': self.assumptions,
        'wall_s': round(time.time() - self.t0, 3),
        'violations': len(new),
    }
    os.makedirs(EVIDENCE_DIR, exist_ok=True)
    tmp = os.path.join(EVIDENCE_DIR, '.%s.json.tmp' % self.pid)
    with open(tmp, 'w') as f:
      json.dump(ev, f, indent=1, sort_keys=True)
    os.replace(tmp, os.path.join(EVIDENCE_DIR, '%s.json' % self.pid))
    summary = {k: v for k, v in cov.items() if isinstance(v, (int, bool))}
    print('%s tier=%s %s wall=%.1fs violations=%d known=%d' % (
        self.pid, self.tier, summary, ev['wall_s'], len(new), len(old)))
    return rc


# ---------------------------------------------------------------------------
# Parallel map over work items with a module-level worker (fork start method,
# forked before any openhtf thread exists in the parent).

_WORKER = None


class HarnessHang(Exception):
  """A worker never returned: the code under test hangs (or is far too slow)."""


def _call(item):
  try:
    return ('ok', _WORKER(item))
  except BaseException:  # pylint: disable=broad-except
    return ('err', traceback.format_exc())


def thorough_budget(tier, default=600.0):
  """Wall-clock seconds the schedule explorations of one thorough run may take in total (None = unlimited: quick tier,
  whose configurations are sized to finish)."""
  if tier != 'thorough':
    return None
  return float(os.environ.get('VERIF_THOROUGH_BUDGET_S', default))


def pmap(worker, items, jobs=None, chunksize=None):
  """Ordered parallel map; worker exceptions abort the check loudly."""
  global _WORKER
  items = list(items)
  jobs = min(jobs or NCPU, max(1, len(items)))
  _WORKER = worker
  if jobs <= 1 or len(items) <= 1:
    out = [_call(i) for i in items]
  else:
    ctx = multiprocessing.get_context('fork')
    if chunksize is None:
      chunksize = max(1, len(items) // (jobs * 8))
    limit = float(os.environ.get('VERIF_TIMEOUT', '1500'))
    with ctx.Pool(jobs) as pool:
      try:
        out = pool.map_async(_call, items, chunksize).get(timeout=limit)
      except multiprocessing.TimeoutError:
        pool.terminate()
        raise HarnessHang('workers did not finish within %.0fs' % limit)
  res = []
  for tag, val in out:
    if tag == 'err':
      sys.stderr.write(val)
      raise RuntimeError('worker failed (harness error, not a verdict)')
    res.append(val)
  return res


def chunked(seq, n):
  seq = list(seq)
  k = max(1, (len(seq) + n - 1) // n)
  return [seq[i:i + k] for i in range(0, len(seq), k)]


def rotate(seq, s=None):
  """Seed-dependent enumeration order (never changes the explored set)."""
  seq = list(seq)
  s = seed() if s is None else s
  if not seq or not s:
    return seq
  k = s % len(seq)
  return seq[k:] + seq[:k]
