"""LINE-event hooks on selected code objects via sys.monitoring (CPython 3.12).

Used as crash/fault points (Engine F) and as scheduling points (Engine S).
The callback may block the calling thread or raise into the monitored code.
"""
import sys
import types

TOOL = 3
_mon = sys.monitoring
_active = {'cb': None, 'codes': []}


def code_objects(obj, seen=None):
  """All code objects reachable from a function / class / module (own code only)."""
  seen = set() if seen is None else seen
  out = []

  def add_code(co):
    if co in seen:
      return
    seen.add(co)
    out.append(co)
    for c in co.co_consts:
      if isinstance(c, types.CodeType):
        add_code(c)

  def visit(o, modname):
    if isinstance(o, (staticmethod, classmethod)):
      o = o.__func__
    if isinstance(o, property):
      for f in (o.fget, o.fset, o.fdel):
        if f is not None:
          visit(f, modname)
      return
    if hasattr(o, '__wrapped__') and callable(getattr(o, '__wrapped__')):
      visit(o.__wrapped__, modname)
    if isinstance(o, types.FunctionType):
      if modname is None or o.__module__ == modname:
        add_code(o.__code__)
    elif isinstance(o, type):
      if modname is None or o.__module__ == modname:
        for v in list(vars(o).values()):
          visit(v, modname)

  if isinstance(obj, types.ModuleType):
    for v in list(vars(obj).values()):
      visit(v, obj.__name__)
  elif isinstance(obj, types.CodeType):
    add_code(obj)
  else:
    visit(obj, None)
  return out


def _dispatch(code, lineno):
  cb = _active['cb']
  if cb is not None:
    return cb(code, lineno)
  return None


def install(targets, callback):
  """targets: iterable of modules/classes/functions/code objects."""
  uninstall()
  try:
    _mon.use_tool_id(TOOL, 'vf')
  except ValueError:
    pass
  codes = []
  seen = set()
  for t in targets:
    codes.extend(code_objects(t, seen))
  _mon.register_callback(TOOL, _mon.events.LINE, _dispatch)
  for co in codes:
    _mon.set_local_events(TOOL, co, _mon.events.LINE)
  _active['cb'] = callback
  _active['codes'] = codes
  return codes


def uninstall():
  _active['cb'] = None
  for co in _active['codes']:
    try:
      _mon.set_local_events(TOOL, co, 0)
    except ValueError:
      pass
  _active['codes'] = []
  try:
    _mon.register_callback(TOOL, _mon.events.LINE, None)
    _mon.free_tool_id(TOOL)
  except ValueError:
    pass


def ensure(targets, callback):
  """Like install(), but additive and persistent: code objects already hooked stay hooked.

  Toggling local events between executions makes CPython re-instrument the code
  objects, after which a line may be reported twice; keeping them installed
  keeps LINE events identical from one execution to the next.
  """
  try:
    _mon.use_tool_id(TOOL, 'vf')
    _mon.register_callback(TOOL, _mon.events.LINE, _dispatch)
  except ValueError:
    pass
  have = set(_active['codes'])
  seen = set()
  for t in targets:
    for co in code_objects(t, seen):
      if co not in have:
        _mon.set_local_events(TOOL, co, _mon.events.LINE)
        _active['codes'].append(co)
        have.add(co)
  _active['cb'] = callback
  return _active['codes']
