"""From-scratch base-type renderer of the *public* attributes of records (C10).

It never reads any `_cached*` attribute and never calls an `as_base_types`
method of the measurement / record classes whose caches are under test.
"""
import enum
import math
import numbers


def base(v, json_safe=True, tuple_type=tuple):
  """Independent conversion of a user value to base types."""
  if v is None or isinstance(v, (bool, str, bytes)):
    return v
  if isinstance(v, enum.Enum):
    return v.name
  if isinstance(v, numbers.Integral):
    return int(v)
  if isinstance(v, numbers.Real):
    f = float(v)
    if json_safe and (math.isnan(f) or math.isinf(f)):
      return str(f)
    return f
  if isinstance(v, dict):
    return {base(k, json_safe, tuple_type): base(x, json_safe, tuple_type) for k, x in v.items()}
  if isinstance(v, list):
    return [base(x, json_safe, tuple_type) for x in v]
  if isinstance(v, tuple):
    return tuple_type(base(x, json_safe, tuple_type) for x in v)
  return str(v)


def jsonish(v):
  """What a JSON round trip does to a base-type structure (tuples -> lists)."""
  if isinstance(v, dict):
    return {str(k): jsonish(x) for k, x in v.items()}
  if isinstance(v, (list, tuple)):
    return [jsonish(x) for x in v]
  return v


def measurement(m):
  """Scratch rendering of the cache-relevant part of a Measurement."""
  out = {'name': m.name, 'outcome': m.outcome.name}
  mv = m.measured_value
  if mv.is_value_set:
    if m.dimensions:
      out['measured_value'] = [base(tuple(coords) + (val,)) for coords, val in mv.value_dict.items()]
    else:
      out['measured_value'] = base(mv.stored_value)
  if m.validators:
    out['validators'] = tuple(str(v) for v in m.validators)
  return out


def same(a, b):
  """Structural equality where NaN == NaN and tuple/list sequences compare by content."""
  if isinstance(a, float) and isinstance(b, float) and math.isnan(a) and math.isnan(b):
    return True
  if isinstance(a, dict) and isinstance(b, dict):
    return set(a) == set(b) and all(same(a[k], b[k]) for k in a)
  if isinstance(a, (list, tuple)) and isinstance(b, (list, tuple)):
    return len(a) == len(b) and all(same(x, y) for x, y in zip(a, b))
  return type(a) == type(b) and a == b  # pylint: disable=unidiomatic-typecheck
