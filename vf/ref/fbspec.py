"""Reference automaton for the fastboot host side (C16).

Written from the property statement: what a scripted bootloader must receive
and what the host call must return/raise, for a given response script.
"""


def split(resp):
  return resp[:4], resp[4:]


def accept(script, pos, expected, infos):
  """Consumes responses until expected header / error.

  Returns (pos, ('ret', payload) | ('exc', kind, text)).  kind 'silence' means
  the script ran out (the fake device raises its own Silence exception).
  """
  while True:
    if pos >= len(script):
      return pos, ('exc', 'silence', '')
    head, rest = split(script[pos])
    pos += 1
    if head == 'INFO':
      infos.append(rest)
      continue
    if head in ('OKAY', 'DATA'):
      if head != expected:
        return pos, ('exc', 'state_mismatch', '')
      return pos, ('ret', rest)
    if head == 'FAIL':
      return pos, ('exc', 'remote_failure', rest)
    return pos, ('exc', 'invalid_response', '')


def simple(packet, script, pos=0):
  """Expected behaviour of a simple command."""
  infos = []
  pos, res = accept(script, pos, 'OKAY', infos)
  return {'writes': [packet], 'infos': infos, 'result': res, 'consumed': pos}


def is_hex8(s):
  return len(s) >= 8 and all(c in '0123456789abcdefABCDEF' for c in s[:8])


def download(image, chunk, script, pos=0):
  infos = []
  writes = ['download:%08x' % len(image)]
  pos, res = accept(script, pos, 'DATA', infos)
  if res[0] == 'exc':
    return {'writes': writes, 'image_chunks': [], 'infos': infos,
            'result': res, 'consumed': pos, 'progress': []}
  size = res[1]
  if not is_hex8(size):
    # Malformed DATA: the statement only says no bytes may be sent.
    return {'writes': writes, 'image_chunks': [], 'infos': infos,
            'result': ('exc', 'any', ''), 'consumed': pos, 'progress': []}
  if int(size[:8], 16) != len(image):
    return {'writes': writes, 'image_chunks': [], 'infos': infos,
            'result': ('exc', 'transfer', ''), 'consumed': pos, 'progress': []}
  progress = []
  sent = 0
  n = len(image)
  # chunk boundaries are not prescribed, only the bound; the harness checks
  # concatenation and chunk sizes, and progress = running sums of actual chunks.
  pos, res = accept(script, pos, 'OKAY', infos)
  return {'writes': writes, 'image': image, 'infos': infos, 'result': res,
          'consumed': pos, 'progress': 'cumulative'}
