"""Reference interpreter for openhtf test programs.

Written from docs/event_sequence.md, the PhaseResult / PhaseOptions docstrings
and the statements of C01/C02/C05 -- it never calls into openhtf.  Works on the
annotated tree produced by vf.progs.number().  Produces the same observation
shape as vf.progs.run_spec (calls, phases, subtests, branches, checkpoints,
diagnoses, outcome).
"""
DEFAULT_REPEAT_LIMIT = 3

RET_RESULT = {
    'ok': 'CONTINUE', 'continue': 'CONTINUE', 'fail': 'FAIL_AND_CONTINUE', 'skip': 'SKIP', 'stop': 'STOP',
    'fail_subtest': 'FAIL_SUBTEST', 'repeat': 'REPEAT', 'slowrepeat': 'REPEAT', 'slowok': 'CONTINUE',
}


def per_inv(v, i):
  if isinstance(v, list):
    return v[min(i, len(v) - 1)]
  return v


class Run(object):

  def __init__(self, settings):
    self.s = settings or {}
    self.calls = []
    self.phases = []        # dicts: name,outcome,result,subtest,diag,fdiag,meas
    self.subtests = []
    self.branches = []
    self.checkpoints = []
    self.diagnoses = []     # (result, is_failure)
    self.store = set()
    self.first_terminal = None   # ('exc', type) | ('timeout',) | ('stop',)
    self.counts = {}

  # ---- one phase invocation ------------------------------------------------
  def invoke(self, node, subtest, last_repeat):
    """Returns (result_kind, record_or_None)."""
    name, beh = node['name'], node['beh']
    opts = beh.get('opts', {})
    run_if = opts.get('run_if')
    if run_if is not None:
      self.calls.append(('run_if', name))
      if run_if == 'raise':
        return 'EXC:PhaseBoom', None
      if run_if in ('false', 'none', 'zero', 'empty'):
        return 'SKIP', None
      if run_if == 'once':
        k = self.counts['runif:' + name] = self.counts.get('runif:' + name, 0) + 1
        if k > 1:
          return 'SKIP', None
    n = self.counts[name] = self.counts.get(name, 0) + 1
    self.calls.append((name, n))
    r = per_inv(beh.get('ret', ['ok']), n - 1)
    m = per_inv(beh.get('meas', 'none'), n - 1)
    if r in ('hang', 'hangdeaf', 'hangswallow'):
      result = 'TIMEOUT'
    elif r == 'raise':
      result = 'EXC:PhaseBoom'
    elif r == 'raise_f':
      result = 'EXC:FailureExc'
    elif r == 'raise_fsub':
      result = 'EXC:FailureSub'
    elif r == 'raise_fbase':
      result = 'EXC:FailureBase'
    elif r in ('bad', 'bad0', 'badstr', 'badrep'):
      result = 'EXC:InvalidPhaseResultError'
    elif r == 'sysexit':
      result = 'KILLED'        # the phase thread died without a result (SystemExit): like a killed phase
    elif r == 'fail_subtest' and subtest is None:
      result = 'EXC:InvalidPhaseResultError'
    else:
      result = RET_RESULT[r]
    meas_outcome = {'none': None, 'pass': 'PASS', 'marg': 'PASS', 'fail': 'FAIL', 'unset': 'UNSET',
                    'dimunset': 'UNSET', 'dimset': 'PASS', 'dimbad': 'FAIL', 'dimgood': 'PASS'}[m]
    # a body that raised/hung after setting the measurement keeps the value it set
    hit_limit = result == 'REPEAT' and last_repeat
    terminal = result.startswith('EXC:') or result in ('TIMEOUT', 'STOP', 'KILLED')
    if terminal or hit_limit:
      outcome = 'ERROR'
    elif result in ('REPEAT', 'SKIP'):
      outcome = 'SKIP'
    elif result in ('FAIL_SUBTEST', 'FAIL_AND_CONTINUE'):
      outcome = 'FAIL'
    else:
      ok = meas_outcome in (None, 'PASS') or (meas_outcome == 'UNSET' and self.s.get('allow_unset'))
      if not ok:
        outcome = 'FAIL'
        if opts.get('stop_on_measurement_fail'):
          result = 'STOP'
      else:
        outcome = 'PASS'
    diag, fdiag = [], []
    # diagnosers: once per invocation that was neither skipped, repeated nor aborted; all of them
    if result not in ('REPEAT', 'SKIP', 'KILLED') or (result == 'REPEAT' and False):
      diags = beh.get('diag') or []
      if not isinstance(diags, list):
        diags = [diags]
      for idx, d in enumerate(diags):
        self.calls.append(('diag', name, idx))
        if d == 'raise':
          if not (result.startswith('EXC:') or result in ('TIMEOUT', 'STOP')):
            result = 'EXC:DiagBoom'
          continue
        if d == 'none':
          continue
        if d == 'iA':
          # an *internal* diagnosis of result A: on the phase record and in the store that conditions consult, but
          # not among the test record's diagnoses
          diag.append('A')
          self.store.add('A')
          continue
        if d in ('AFlist', 'AF1', 'ABlist'):
          for x in (['A'] if d == 'AF1' else ['A', 'B']):
            (diag if d == 'ABlist' else fdiag).append(x)
            self.diagnoses.append((x, d != 'ABlist'))
            self.store.add(x)
          continue
        is_f = d.startswith('F')
        (fdiag if is_f else diag).append(d)
        self.diagnoses.append((d, is_f))
        self.store.add(d)
    if outcome != 'ERROR':
      if result.startswith('EXC:') or result in ('TIMEOUT', 'STOP', 'KILLED'):
        outcome = 'ERROR'
      elif outcome == 'PASS' and fdiag:
        outcome = 'FAIL'
    if hit_limit:
      final_result = 'STOP'
    else:
      final_result = result
    rec = {'name': name, 'outcome': outcome, 'result': result, 'subtest': subtest['name'] if subtest else None,
           'diag': tuple(sorted(diag)), 'fdiag': tuple(sorted(fdiag)),
           'meas': (('m_' + name, meas_outcome),) if meas_outcome else ()}
    self.phases.append(rec)
    return final_result, rec

  def run_phase(self, node, subtest):
    """Repeat loop.  Returns final result kind."""
    opts = node['beh'].get('opts', {})
    limit = opts.get('repeat_limit') or DEFAULT_REPEAT_LIMIT
    count = 1
    while True:
      last = count >= limit
      result, rec = self.invoke(node, subtest, last)
      again = False
      if result == 'TIMEOUT' and opts.get('repeat_on_timeout'):
        again = True
      elif result == 'REPEAT':
        again = True
      elif result == 'KILLED':
        again = False          # an aborted / killed attempt is never repeated
      elif opts.get('force_repeat'):
        again = True
      elif opts.get('repeat_on_measurement_fail'):
        again = rec is not None and rec['outcome'] == 'FAIL'
      if again and not last:
        count += 1
        continue
      return result

  # ---- nodes -----------------------------------------------------------------
  def terminal_event(self, result):
    if self.first_terminal is None:
      if result.startswith('EXC:'):
        self.first_terminal = ('exc', result[4:])
      elif result == 'TIMEOUT':
        self.first_terminal = ('timeout',)
      elif result == 'KILLED':
        self.first_terminal = ('exc', 'ThreadTerminationError')
      else:
        self.first_terminal = ('stop',)

  def exec_phase(self, node, subtest, in_teardown):
    if not in_teardown and subtest is not None and subtest['outcome'] == 'FAIL':
      self.phases.append({'name': node['name'], 'outcome': 'SKIP', 'result': 'SKIP', 'subtest': subtest['name'],
                          'diag': (), 'fdiag': (),
                          'meas': (('m_' + node['name'], 'UNSET'),) if node['beh'].get('meas', 'none') != 'none' else ()})
      return 'CONTINUE'
    before = len(self.phases)
    result = self.run_phase(node, subtest)
    if self.s.get('sof') and len(self.phases) > before and self.phases[-1]['outcome'] == 'FAIL':
      # stop_on_first_failure: a failed phase stops the test
      result = 'STOP'
    if result.startswith('EXC:') or result in ('TIMEOUT', 'STOP', 'KILLED'):
      self.terminal_event(result)
      return 'TERMINAL'
    if result == 'FAIL_SUBTEST':
      subtest['outcome'] = 'FAIL'
    return 'CONTINUE'

  def cond(self, c):
    kind, results = c
    present = [r in self.store for r in results]
    return {'any': any(present), 'all': all(present), 'not_any': not any(present), 'not_all': not all(present)}[kind]

  def exec_checkpoint(self, node, subtest, in_teardown):
    sname = subtest['name'] if subtest else None
    if not in_teardown and subtest is not None and subtest['outcome'] == 'FAIL':
      self.checkpoints.append((node['name'], 'SKIP', sname))
      return 'CONTINUE'
    kind = node['kind']
    action = 'STOP' if node['action'] == 'stop' else 'FAIL_SUBTEST'
    result = None
    if kind in ('last', 'all', 'subtest'):
      if not self.phases:
        result = 'EXC:NoPhasesFoundError'
      elif kind == 'last':
        hit = self.phases[-1]['outcome'] == 'FAIL'
      elif kind == 'subtest' and subtest is not None:
        hit = any(p['outcome'] == 'FAIL' and p['subtest'] == subtest['name'] for p in self.phases)
      else:
        hit = any(p['outcome'] == 'FAIL' for p in self.phases)
    else:
      ckind, res = kind.split(':')
      hit = self.cond([ckind, res.split(',')])
    if result is None:
      result = action if hit else 'CONTINUE'
      if result == 'FAIL_SUBTEST' and subtest is None:
        result = 'EXC:InvalidPhaseResultError'
    self.checkpoints.append((node['name'], result, sname))
    if result.startswith('EXC:') or result == 'STOP':
      self.terminal_event(result)
      return 'TERMINAL'
    if result == 'FAIL_SUBTEST':
      subtest['outcome'] = 'FAIL'
    return 'CONTINUE'

  def exec_seq(self, nodes, subtest, in_teardown):
    if in_teardown:
      ret = 'CONTINUE'
      for n in nodes:
        if self.exec_node(n, subtest, True) == 'TERMINAL':
          ret = 'TERMINAL'
      return ret
    for n in nodes:
      r = self.exec_node(n, subtest, False)
      if r != 'CONTINUE':
        return r
    return 'CONTINUE'

  def exec_node(self, n, subtest, in_teardown):
    k = n['k']
    if k == 'p':
      return self.exec_phase(n, subtest, in_teardown)
    if k == 'c':
      return self.exec_checkpoint(n, subtest, in_teardown)
    if k == 'seq':
      return self.exec_seq(n['nodes'], subtest, in_teardown)
    if k == 'sub':
      rec = {'name': n['name'], 'outcome': 'PASS'}
      if subtest is not None and subtest['outcome'] == 'FAIL':
        rec['outcome'] = 'FAIL'
      r = self.exec_seq(n['nodes'], rec, in_teardown)
      if r == 'TERMINAL':
        rec['outcome'] = 'STOP'
      self.subtests.append((rec['name'], rec['outcome']))
      return r
    if k == 'br':
      if not in_teardown and subtest is not None and subtest['outcome'] == 'FAIL':
        return 'CONTINUE'
      taken = self.cond(n['cond'])
      r = self.exec_seq(n['nodes'], subtest, in_teardown) if taken else 'CONTINUE'
      self.branches.append((n['name'], taken))
      return r
    if k == 'grp':
      skip_td = subtest is not None and subtest['outcome'] == 'FAIL'
      if n['setup']:
        r = self.exec_seq(n['setup'], subtest, in_teardown)
        if r != 'CONTINUE':
          return r
        if not skip_td:
          skip_td = subtest is not None and subtest['outcome'] == 'FAIL'
      main_r = self.exec_seq(n['main'], subtest, in_teardown) if n['main'] else 'CONTINUE'
      td_r = self.exec_seq(n['teardown'], subtest, not skip_td) if n['teardown'] else 'CONTINUE'
      return 'TERMINAL' if 'TERMINAL' in (main_r, td_r) else 'CONTINUE'
    raise AssertionError(n)

  def finish(self):
    for idx, d in enumerate(self.s.get('test_diag') or []):
      self.calls.append(('tdiag', idx))
      if d == 'raise':
        if self.first_terminal is None:
          self.first_terminal = ('exc', 'DiagBoom')
        continue
      if d == 'none':
        continue
      is_f = d in ('TF', 'TFgen')
      self.diagnoses.append((d[:2], is_f))
      self.store.add(d[:2])
    ft = self.first_terminal
    if ft is not None:
      if ft[0] == 'exc':
        if ft[1] in ('FailureExc', 'FailureSub') and self.s.get('failure_exceptions'):
          return 'FAIL'
        return 'ERROR'
      if ft[0] == 'timeout':
        return 'TIMEOUT'
      return 'FAIL'
    if any(p['outcome'] == 'FAIL' for p in self.phases):
      return 'FAIL'
    if self.phases and all(p['outcome'] == 'SKIP' for p in self.phases):
      return 'ERROR'
    if any(f for _, f in self.diagnoses):
      return 'FAIL'
    if any(o == 'FAIL' for _, o in self.subtests):
      return 'FAIL'
    return 'PASS'


def execute(tree, settings=None):
  run = Run(settings)
  run.exec_seq(tree, None, False)
  outcome = run.finish()
  return {
      'ret': outcome == 'PASS', 'outcome': outcome, 'calls': run.calls,
      'phases': [(p['name'], p['outcome'], p['result'], p['subtest'], p['diag'], p['fdiag'], p['meas']) for p in run.phases],
      'subtests': run.subtests, 'branches': run.branches, 'checkpoints': run.checkpoints,
      'diagnoses': run.diagnoses,
  }
