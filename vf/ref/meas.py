"""Reference semantics of measurements (C06), written from the property text.

A measurement spec is a dict:
  kind: 'scalar' | 'dim1' | 'dim2'
  transform: None | 'x2' | 'round0' | 'roundm1'
  validators: list of validator codes, see VALIDATORS
  cond: None | [result, validator code]   (conditional validator)
"""
import math


class ValidatorRaised(Exception):
  pass


class TransformRaised(Exception):
  pass


def isnum(v):
  return isinstance(v, (int, float)) and not isinstance(v, bool)


def rng(lo, hi):
  def f(v):
    if v is None:
      return False
    if not isnum(v) and not isinstance(v, bool):
      raise ValidatorRaised('range validator on %r' % (v,))
    if isinstance(v, float) and math.isnan(v):
      return False
    return lo <= v <= hi
  return f


def marg(lo, hi, mlo, mhi):
  def f(v):
    if v is None or (isinstance(v, float) and math.isnan(v)):
      return False
    return (lo <= v <= mlo) or (mhi <= v <= hi)
  return f


def boom_on_11(v):
  if v == 11:
    raise ValidatorRaised('boom on 11')
  return True


def pivot(pred):
  return lambda rows: all(pred(r[-1]) for r in rows)


def boom_rows(rows):
  if any(r[-1] == 11 for r in rows):
    raise ValidatorRaised('boom on 11 in rows')
  return True


# code -> (accept predicate, marginal predicate or None)
VALIDATORS = {
    'r0_10': (rng(0, 10), None),
    'r0_10m': (rng(0, 10), marg(0, 10, 2, 8)),
    'r0_4': (rng(0, 4), None),
    'r0_100': (rng(0, 100), None),
    'is_int': (lambda v: isinstance(v, int) and not isinstance(v, bool), None),
    'boom11': (boom_on_11, None),
    'p_r0_10': (pivot(rng(0, 10)), None),
    'p_boom': (boom_rows, None),
}


def transform(code, v):
  if code is None:
    return v
  try:
    if code == 'x2':
      return v * 2
    if code == 'round0':
      return round(v, ndigits=0)
    if code == 'roundm1':
      return round(v, ndigits=-1)
  except Exception as e:  # pylint: disable=broad-except
    raise TransformRaised(str(e))
  raise AssertionError(code)


class RefMeasurement(object):

  def __init__(self, spec, diag_present):
    self.spec = spec
    self.validators = list(spec.get('validators', []))
    if spec.get('cond') and spec['cond'][0] in diag_present:
      self.validators.append(spec['cond'][1])
    self.is_set = False
    self.value = None            # scalar value or dict coords->value (insertion ordered)
    self.outcome = 'UNSET'
    self.marginal = False
    if spec['kind'] != 'scalar':
      self.value = {}

  def ndims(self):
    return {'scalar': 0, 'dim1': 1, 'dim2': 2}[self.spec['kind']]

  def _validate(self, recorded):
    """Sets outcome/marginal; raises ValidatorRaised after marking FAIL."""
    self.marginal = False
    try:
      ok = True
      for code in self.validators:
        if not VALIDATORS[code][0](recorded):
          ok = False
          break
      if ok:
        self.outcome = 'PASS'
        self.marginal = any(VALIDATORS[c][1] is not None and VALIDATORS[c][1](recorded) for c in self.validators)
      else:
        self.outcome = 'FAIL'
    except ValidatorRaised:
      self.outcome = 'FAIL'
      raise

  def set_scalar(self, v):
    """Returns None or raises TransformRaised / ValidatorRaised."""
    tv = transform(self.spec.get('transform'), v)
    self.value = tv
    self.is_set = True
    self._validate(tv)

  def set_dim(self, coords, v):
    tv = transform(self.spec.get('transform'), v)
    self.value[coords] = tv
    self.is_set = True
    self.outcome = 'PARTIALLY_SET'

  def rows(self):
    return [tuple(c) + (v,) for c, v in self.value.items()]

  def finish(self):
    """End of phase; returns None or raises ValidatorRaised."""
    if self.spec['kind'] != 'scalar' and self.is_set:
      self._validate(self.rows())

  def recorded(self):
    if not self.is_set:
      return None
    return self.value if self.spec['kind'] == 'scalar' else self.rows()
