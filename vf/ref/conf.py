"""Reference model of openhtf's configuration object (C20).

Written from the property statement and the module docstring only: three
dictionaries, flag > loaded > default.  No call into openhtf.
"""
NOTSET = '<NOTSET>'


class RefErr(Exception):

  def __init__(self, kind):
    super().__init__(kind)
    self.kind = kind


class RefConf(object):

  def __init__(self, flags=None):
    self.decl = {}      # key -> default or NOTSET
    self.loaded = {}
    self.flags = dict(flags or {})
    self.snaps = []     # observations made by body op 'snap' (not part of the state)

  def state(self):
    return (tuple(sorted((k, repr(v)) for k, v in self.decl.items())),
            tuple(sorted((k, repr(v)) for k, v in self.loaded.items())),
            tuple(sorted((k, repr(v)) for k, v in self.flags.items())))

  # ---- reads -------------------------------------------------------------
  def get(self, k):
    if k not in self.decl:
      raise RefErr('undeclared')
    if k in self.flags:
      return self.flags[k]
    if k in self.loaded:
      return self.loaded[k]
    if self.decl[k] != NOTSET:
      return self.decl[k]
    raise RefErr('unset')

  def contains(self, k):
    try:
      self.get(k)
      return True
    except RefErr:
      return False

  def default(self, k):
    if self.decl[k] == NOTSET:
      raise RefErr('nodefault')
    return self.decl[k]

  def asdict_declared(self):
    out = {}
    for k in self.decl:
      try:
        out[k] = self.get(k)
      except RefErr:
        pass
    return out

  # ---- writes ------------------------------------------------------------
  def declare(self, k, default):
    if k in self.decl:
      raise RefErr('redeclare')
    self.decl[k] = default

  def load_dict(self, d, override=True, allow_undeclared=False):
    for k, v in d.items():
      if k not in self.decl and not allow_undeclared:
        continue
      if k in self.loaded and not override:
        continue
      self.loaded[k] = v

  def load_flags(self, d):
    for k, v in d.items():
      self.flags.setdefault(k, v)

  def reset(self):
    self.loaded = {}

  def apply(self, op):
    """op is a JSON-able list; returns None or raises RefErr."""
    kind = op[0]
    if kind == 'declare':
      self.declare(op[1], op[2])
    elif kind == 'load':
      self.load_dict(dict(op[1]), override=op[2], allow_undeclared=op[3])
    elif kind == 'load_file':
      # op[1] = ('ok', items) | ('badyaml',) | ('notdict',)
      if op[1][0] != 'ok':
        raise RefErr('invalidfile')
      self.load_dict(dict(op[1][1]), override=op[2], allow_undeclared=op[3])
    elif kind == 'flags':
      self.load_flags(dict(op[1]))
    elif kind == 'reset':
      self.reset()
    elif kind == 'setattr':
      raise RefErr('noattrset')
    elif kind == 'peek':
      pass          # the wrapped function reads every view: no effect on the state
    elif kind == 'snap':
      self.snaps.append((set(self.decl), {k: (type(v).__name__, repr(v)) for k, v in self.asdict_declared().items()}))
    elif kind == 'sar':
      # save_and_restore(**op[1]) around body ops op[2]; op[3] = body raises
      saved = dict(self.loaded)
      try:
        self.load_dict(dict(op[1]))
        for b in op[2]:
          self.apply(b)
        if op[3]:
          raise RefErr('bodyraised')
      finally:
        self.loaded = saved
    else:
      raise AssertionError(op)
