"""Reference decisions for the built-in validators (C07).

Exact arithmetic (fractions) restatement of the property text.  Functions
return True (must accept), False (must not accept: falsy result or an
exception) or None (the statement does not decide this case).
"""
import fractions
import math
import numbers

F = fractions.Fraction


def isnum(x):
  return isinstance(x, numbers.Number)


def isnan(x):
  return isinstance(x, float) and x != x


def conv(limit, typ):
  """Declared-type conversion of a limit."""
  if limit is None:
    return None
  return typ(limit) if typ is not None else limit


def le(a, b):
  """Exact a <= b for ints/floats/bools incl. infinities (never NaN here)."""
  if isinstance(a, float) and math.isinf(a):
    return a < 0 or (isinstance(b, float) and math.isinf(b) and b > 0)
  if isinstance(b, float) and math.isinf(b):
    return b > 0
  return F(a) <= F(b)


def in_range(lo, hi, v):
  """Inclusive range membership; None/NaN never pass."""
  if v is None or isnan(v):
    return False
  if not isnum(v):
    return None
  if lo is not None and not le(lo, v):
    return False
  if hi is not None and not le(v, hi):
    return False
  return True


def range_marginal(lo, hi, mlo, mhi, v):
  """For a passing value: marginal iff between a bound and its marginal limit."""
  if in_range(lo, hi, v) is not True:
    return None
  if mlo is not None and le(lo, v) and le(v, mlo):
    return True
  if mhi is not None and le(mhi, v) and le(v, hi):
    return True
  return False


def ctor_verdict(lo, hi, mlo, mhi):
  """'reject' | 'accept' | None for numeric limit tuples."""
  vals = [x for x in (lo, hi, mlo, mhi) if x is not None]
  if not all(isnum(x) and not isnan(x) for x in vals):
    return None
  if lo is None and hi is None:
    return 'reject'
  if lo is not None and hi is not None and not le(lo, hi):
    return 'reject'
  if mlo is not None and lo is None:
    return 'reject'
  if mhi is not None and hi is None:
    return 'reject'
  if mlo is not None and not le(lo, mlo):
    return 'reject'
  if mhi is not None and not le(mhi, hi):
    return 'reject'
  if mlo is not None and mhi is not None and not le(mlo, mhi):
    return 'reject'
  # Fully consistent tuples must be accepted; a marginal limit beyond the
  # *opposite* bound is not addressed by the statement.
  if mlo is not None and hi is not None and not le(mlo, hi):
    return None
  if mhi is not None and lo is not None and not le(lo, mhi):
    return None
  return 'accept'


def percent_bounds(expected, percent):
  e = F(expected)
  d = abs(e * F(percent) / 100)
  return e - d, e + d


def exactly_float(fr):
  try:
    return F(float(fr)) == fr
  except OverflowError:
    return False


def within_percent(expected, percent, v):
  if v is None or isnan(v):
    return False
  if not isnum(v):
    return None
  lo, hi = percent_bounds(expected, percent)
  if isinstance(v, float) and math.isinf(v):
    return False
  fv = F(v)
  inside = lo <= fv <= hi
  # The implementation computes the bounds in floating point; where a bound is
  # not exactly representable a probe within one part in 1e12 of it is not
  # decided by the statement.
  for b in (lo, hi):
    if not exactly_float(b) and abs(fv - b) <= abs(b) / 10**12 + F(1, 10**300):
      return None
  return inside


def equals_str(spec, v):
  s = str(v)
  return s == spec or s == spec + '\n'
