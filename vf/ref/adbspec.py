"""Reference automata for the ADB host side (C15): handshake and stream session.

Written from the property text and Android's protocol.txt; no call into openhtf.
Messages are tuples (cmd, arg0, arg1, data:str).
"""
AUTH_TOKEN, AUTH_SIGNATURE, AUTH_RSAPUBLICKEY = 1, 2, 3
VERSION = 0x01000000
MAXDATA_HOST = 4096
HOST_BANNER = 'host::googlex_adb\0'


def banner_ok(data):
  return data.count(':') >= 2


def handshake(script, nkeys):
  """Device script items: ('msg', (cmd,a0,a1,data)) | ('corrupt',) | ('silence',).

  Returns dict(writes=[...], result=..., consumed=n, waiting=bool) where result is
  ('conn', maxdata, systemtype, serial, banner) | ('err', category) with category in
  {'auth','protocol','timeout'}; waiting=True if the script ended while the host
  was still waiting (running out of script is silence).
  Signatures are written symbolically as 'sig<k>(<token>)', public key 'pub0\\0'.
  """
  writes = [('CNXN', VERSION, MAXDATA_HOST, HOST_BANNER)]
  pos = 0

  def conn(m):
    _, _, a1, data = m
    if not banner_ok(data):
      return ('err', 'protocol')
    st, serial, banner = data.split(':', 2)
    return ('conn', a1, st, serial, banner)

  def wait(expected, final_phase=False):
    """Returns ('msg', m) | ('err', cat) | ('silence',)."""
    nonlocal pos
    while True:
      if pos >= len(script):
        return ('silence', True)
      item = script[pos]
      pos += 1
      if item[0] == 'silence':
        return ('silence', False)
      if item[0] == 'corrupt':
        return ('err', 'protocol')
      m = item[1]
      if m[0] in expected:
        return ('msg', m)
      if item[0] == 'slowmsg':
        return ('slow',)               # an unrelated packet, and the time budget is used up: a timeout
      # unrelated packet before CNXN: ignored

  def out(result, waiting=False):
    return {'writes': writes, 'result': result, 'consumed': pos, 'waiting': waiting}

  r = wait(('AUTH', 'CNXN'))
  if r[0] == 'slow':
    return out(('err', 'timeout'))
  if r[0] == 'silence':
    return out(('err', 'timeout'), r[1])
  if r[0] == 'err':
    return out(r)
  m = r[1]
  if m[0] == 'CNXN':
    return out(conn(m))
  if nkeys == 0:
    return out(('err', 'auth'))
  for k in range(nkeys):
    if m[1] != AUTH_TOKEN:
      return out(('err', 'protocol'))
    writes.append(('AUTH', AUTH_SIGNATURE, 0, 'sig%d(%s)' % (k, m[3])))
    r = wait(('AUTH', 'CNXN'))
    if r[0] == 'slow':
      return out(('err', 'timeout'))
    if r[0] == 'silence':
      return out(('err', 'timeout'), r[1])
    if r[0] == 'err':
      return out(r)
    m = r[1]
    if m[0] == 'CNXN':
      return out(conn(m))
  writes.append(('AUTH', AUTH_RSAPUBLICKEY, 0, 'pub0\0'))
  r = wait(('CNXN',))
  if r[0] == 'slow':
    return out(('err', 'timeout'))     # (the device is talking, just not saying CNXN: a timeout, not "accept the key")
  if r[0] == 'silence':
    return out(('err', 'auth'), r[1])  # operator did not accept the key in time
  if r[0] == 'err':
    return out(r)
  return out(conn(r[1]))


class Stream(object):

  def __init__(self, local, remote):
    self.local = local
    self.remote = remote
    self.written = ''       # bytes the device wrote that the host consumed from the wire
    self.read = ''          # bytes returned by host reads
    self.remote_closed = False   # device CLSE consumed by the host
    self.local_closed = False    # host close() called
    self.clse_sent = 0      # host CLSE messages observed for this stream
    self.okay_sent = 0      # host OKAY acks observed for this stream
    self.wrte_consumed = 0
