"""CLI: ./check <ID> [--tier quick|thorough] [--replay FILE]."""
import argparse
import importlib
import json
import os
import sys


def main(argv=None):
  ap = argparse.ArgumentParser()
  ap.add_argument('pid')
  ap.add_argument('--tier', default=os.environ.get('VERIF_TIER', 'quick'),
                  choices=['quick', 'thorough'])
  ap.add_argument('--replay', default=None)
  ap.add_argument('--part', default=None,
                  help='run only the named sub-check (debugging aid)')
  args = ap.parse_args(argv)
  pid = args.pid.upper()
  # openhtf's Test.configure() parses sys.argv; keep it clean.
  sys.argv = [sys.argv[0]]
  import logging
  logging.getLogger().addHandler(logging.NullHandler())
  logging.lastResort = None
  mod = importlib.import_module('vf.harness.%s' % pid.lower())
  if args.replay:
    with open(args.replay) as f:
      art = json.load(f)
    return mod.replay(art)
  if args.part:
    os.environ['VERIF_PART'] = args.part
  if args.tier == 'thorough':
    os.environ.setdefault('VERIF_TIMEOUT', '5400')      # (hang guard of the worker pools: thorough enumerations take longer)
  return mod.run(args.tier)


if __name__ == '__main__':
  sys.stdout.reconfigure(line_buffering=True)
  rc = main()
  sys.stdout.flush()
  sys.stderr.flush()
  os._exit(rc or 0)  # daemon threads of abandoned phases must not block exit
