"""Registry of claimed checks; gen_manifest.py turns it into MANIFEST.json."""
ENGINES = [
    {'name': 'enum', 'path': 'vf/harness', 'kind_free_text':
     'bounded-exhaustive enumeration / explicit-state BFS on the real objects against reference models (vf/ref)',
     'serves_properties': []},
]
NOTES = ('All checks run the real openhtf code from /repo (PYTHONPATH) in a fresh '
         'process; see DESIGN.md.')
NOT_APPLICABLE = {}
CHECKS = {}

CHECKS['C20'] = dict(
    engine='enum', level='model_checking', design_ref='DESIGN.md#c20',
    technique='explicit-state BFS to fixpoint over real _Configuration objects vs reference model',
    text='Every reachable configuration state (three dicts) for a 25/37-operation alphabet over keys '
         '{a,b,u,zz} is visited (BFS to fixpoint, no depth cap hit); after every transition all read APIs '
         '(in, [], attribute, holder.value/.default, _asdict) are compared with an independent model.',
    note='Key/value universe is small and fixed; duplicate flag values for one key are not in the alphabet '
         '(the statement does not order them); --config-file is not exercised.')

CHECKS['C16'] = dict(
    engine='enum', level='model_checking', design_ref='DESIGN.md#c16',
    technique='explicit-state exploration of all device response scripts on the real FastbootCommands vs reference automaton',
    text='All response scripts over a 10/14-symbol alphabet up to depth 5-8 (extended exactly while the host still waits) '
         'for every FastbootCommands method, 8-12 image sizes around chunk multiples, 4 download entry points and '
         '3 progress-callback modes are executed on the real code over a scripted bootloader and compared with an '
         'independent automaton (packets, INFO order, return/exception, bytes sent, chunk bound, progress).',
    note='Chunk size fixed to 1 KiB via the module constant; ASCII images; erase() return value and the exact '
         'exception class for malformed DATA sizes are not compared (the statement does not fix them).')

CHECKS['C07'] = dict(
    engine='enum', level='exploration', design_ref='DESIGN.md#c07',
    technique='bounded-exhaustive input enumeration (limit grid x boundary probes) vs exact-arithmetic reference',
    text='Every combination of a finite limit grid (ints, floats, bools, +-0.0, inf, 2**63, typed numeric strings) with '
         'a probe set containing each bound, its float neighbours, +-0.0, +-inf, NaN, None and huge ints is evaluated '
         'for in_range/equals/within_percent/matches_regex/all_in_range/all_equals/pivots, plus constructor consistency, '
         'with_args sibling derivations, equality and deep copies; decisions are compared with a Fraction-exact oracle.',
    note='Finite grids (listed in the harness); cases the statement leaves open are skipped (see assumptions in the evidence).')

CHECKS['C13'] = dict(
    engine='enum', level='model_checking', design_ref='DESIGN.md#c13',
    technique='exhaustive payload/fault enumeration vs independent codec + stateless schedule exploration of writers/readers',
    text='All payloads of length <= 2 over 256 byte values, the command x 32-bit argument grid and long payload shapes are '
         'framed by the real AdbTransportAdapter and compared byte-for-byte with an independent struct codec and read back; '
         'every single-bit header flip, +-1 length/checksum, unknown command word, header truncation 0..23 and payload '
         'truncation must be rejected with an ADB integrity/protocol error; the deadline is made to pass at every transport '
         'operation; concurrent writers/readers are explored under the controlled scheduler.',
    note='Payload space beyond length 2 is covered by shape only (256^4096 is not enumerable); magic-word flips are not '
         'required to be rejected; line-level preemption granularity in focus functions.')

ENGINES.append({'name': 'crash', 'path': 'vf/harness/c17.py + vf/linehook.py', 'kind_free_text':
    'crash-point / fault enumeration: every source line of the output path is a kill point (kernel-visible '
    'destination content checked) and a fault-injection point; two-step kill-then-rewrite histories',
    'serves_properties': ['C17']})
CHECKS['C17'] = dict(
    engine='crash', level='fault_enumeration', design_ref='DESIGN.md#c17',
    technique='exhaustive crash-point and fault-point enumeration on the real output callbacks',
    text='For OutputToJSON, OutputToFile (pickle and custom str/bytes/iterator serializers) and atomic_write, with a fresh '
         'or previously complete destination: the destination is inspected at every line-level kill point of the output '
         'path, and the run is repeated with an OSError injected at every line of the output modules, with serializers '
         'raising after every k chunks, NaN under allow_nan=False, and failing/partial k-th write, flush and close of the '
         'staging file; plus kill-at-k-then-rewrite histories. Destination must be absent / previous / complete new.',
    note='Kill = process kill (completed syscalls persist); staging dir on the destination file system; line granularity.')

CHECKS['C15'] = dict(
    engine='enum', level='model_checking', design_ref='DESIGN.md#c15',
    technique='exhaustive device reply scripts vs handshake automaton + explicit-state BFS of stream histories vs session model',
    text='Handshake: every device reply script over an 11/15-symbol alphabet (CNXN good/malformed, AUTH token/other, noise, corrupt '
         'frame, silence) up to depth 4/5 with 0-2 signers is run on the real connect() and compared with a reference automaton '
         '(exact host messages, connection fields or error category). Streams: BFS over open/close/remote-close/WRTE/illegal-packet/'
         'read histories with the id limit patched to 4 (wrap-around inside the bound), each step compared with a session model.',
    note='Single-threaded histories; virtual clock; BFS depth-capped (reported in evidence) unless the frontier empties.')

CHECKS['C01'] = dict(
    engine='enum', level='model_checking', design_ref='DESIGN.md#c01',
    technique='bounded-exhaustive enumeration of programs x behaviours x settings on the real executor; record-based PASS-soundness predicate + reference outcome ladder',
    text='Every node tree with 1 leaf slot (depth<=2, all node kinds) x 39 per-invocation behaviours/option sets, every 2-slot tree '
         '(groups/subtests/branches/checkpoints) x 39 x 7 behaviours, under defaults and every single deviation of '
         'stop_on_first_failure (option and CONF), allow_unset_measurements, failure_exceptions and test diagnosers (pairs and 3-slot '
         'trees in thorough) is executed with Test.execute(); each run is judged by a record-only soundness predicate and against an '
         'independent outcome ladder.',
    note='Aborts: C04\'s scenario judged by the no-false-PASS rule (part aborts); timeouts are produced through a virtual deadline clock '
         '(module seam in phase_executor); three genuine design-level findings (force_repeat / repeat_on_timeout forget an ERROR '
         'attempt; an exception inside the executor thread ends the run as if finished) are listed in known_findings.json.')
CHECKS['C02'] = dict(
    engine='enum', level='model_checking', design_ref='DESIGN.md#c02',
    technique='bounded-exhaustive program enumeration on the real executor vs an independent reference interpreter of docs/event_sequence.md',
    text='All trees of phases/groups/subtests/branches/checkpoints up to 3 leaf slots and depth 2 (4 slots / more kinds in thorough) x '
         'all assignments of behaviours, checkpoint kinds/actions and branch conditions are run on the real TestExecutor and compared '
         'exactly (body call log, phase/subtest/branch/checkpoint records, diagnoses, outcome) with vf/ref/refexec.py.',
    note='Groups inside teardown sequences are judged by C03\'s trace predicate (templates in both checks); subtests, branches and '
         'checkpoints as teardown nodes are compared exactly in the teardown-template families. Sampling beyond the bound is outside '
         'this technique family.')

CHECKS['C05'] = dict(
    engine='enum', level='model_checking', design_ref='DESIGN.md#c05',
    technique='bounded-exhaustive decision-table enumeration on the real executor vs reference phase table',
    text='One phase under test in 4 positions (first, after a failed phase, in a subtest, in a group teardown) x all per-invocation '
         'behaviour sequences up to the bound (10 results; pairs, in thorough triples/4-sequences) x 16 measurement/diagnoser '
         'combinations x every single PhaseOption (all compatible pairs in thorough) x allow_unset; exact comparison of per-invocation '
         'records, body/diagnoser/run_if invocation log and outcome with the reference table.',
    note='Timeouts via the virtual deadline clock; timeout_s values themselves are C12.')
CHECKS['C03'] = dict(
    engine='enum', level='model_checking', design_ref='DESIGN.md#c03',
    technique='bounded-exhaustive enumeration of group nestings x behaviours with a trace predicate; stateless schedule exploration of a single abort',
    text='All behaviour assignments (exception, STOP, timeout, FAIL_SUBTEST, failing nested group, terminal earlier teardown node) for '
         'group nestings flat / in main / in teardown / in a subtest / in a branch / two in sequence (plus two-in-main and 3-deep in '
         'thorough) run on the real executor; a per-group trace predicate (independent of the reference interpreter) checks: entered => '
         'each teardown leaf exactly once, after main, before following nodes and before plug tearDown; not entered => no main/teardown '
         'body; terminal teardown results propagate.  Abort timing is explored under the controlled scheduler.',
    note='Setup sequences are plain phases so that "entered" is decidable from records; groups inside teardown only outside subtests.')

CHECKS['C08'] = dict(
    engine='enum', level='fault_enumeration', design_ref='DESIGN.md#c08',
    technique='exhaustive assignment x single-fault enumeration on the real executor with an instrumented event log',
    text='Every assignment of 3 instrumented plug classes (7 request shapes incl. one class under two names and update_kwargs=False) '
         'to 2 phases (3 in thorough) and 5 test_start forms, crossed with every fault of the menu: constructor of A/B/C raises, '
         'tearDown raises or hangs past plug_teardown_timeout_s, test_start raises/STOPs/is aborted, phase j raises/STOPs/times out/is '
         'aborted.  Oracle on the event log: <=1 construction per class, same instance under the requested names, exactly one tearDown '
         'per constructed instance after the last phase/test diagnoser and before the callbacks, only test_start plugs alive during '
         'test_start, constructor failure => ERROR and no later phase, expected outcome unchanged by tearDown faults.',
    note='One fault per run; abort issued by a real helper thread from inside the body (all abort timings are C04).')
CHECKS['C09'] = dict(
    engine='enum', level='model_checking', design_ref='DESIGN.md#c09',
    technique='bounded-exhaustive histories of execute() calls x raising-callback subsets with a structural record predicate',
    text='Histories of 1-2 (3 in thorough) consecutive execute() calls on one Test over 4 test_start modes x 10 main-phase modes '
         '(ok, fail, exception, timeout, skip, plug constructor failure, abort, re-entrant execute() from a phase and from an output '
         'callback, dut set in phase) x subsets of 3 callbacks that raise: every callback gets the same complete final record exactly '
         'once in order; return value <=> PASS; afterwards no executor, no TEST_INSTANCES entry, no leaked log handler; overlap refused.',
    note='Concurrent execute() from two threads and the KeyboardInterrupt path are explored under the scheduler (C04/C09 schedules).')

CHECKS['C06'] = dict(
    engine='enum', level='model_checking', design_ref='DESIGN.md#c06',
    technique='bounded-exhaustive assignment histories inside a real phase vs reference measurement model',
    text='9 pairs of measurement declarations (scalar, transform, precision, marginal bands, two validators, raising validator, '
         'conditional validator with its result present/absent, 1-D, 1-D+transform, 2-D, dimensioned raising validator) x all '
         'assignment histories up to length 2 (3 in thorough) over values {5, 9.5, 11, 1, None, NaN, str}, per-coordinate sets and '
         'overrides, assignments without coordinates / wrong coordinate count / undeclared names, executed in a real phase of a real '
         'Test and compared with a reference model: recorded value, outcome, marginal, per-assignment exceptions, phase error.',
    note='Validators limited to the listed codes; values limited to the listed set.')

CHECKS['C10'] = dict(
    engine='enum', level='model_checking', design_ref='DESIGN.md#c10',
    technique='bounded-exhaustive operation histories (incl. reads of the live view) with a cached-vs-from-scratch differential oracle; strict JSON round trip',
    text='All histories up to length 3 (4 in thorough) over 13 operations inside a real phase (scalar/transform/dimensioned sets and '
         'overrides, attach, log, read of the live PhaseState/TestState view) -- at every read and at the end the incremental rendering '
         'is compared with a from-scratch rendering of the public attributes; all C02-style programs with <=2 slots for the record '
         'lists; attachments of equal name/size across repeated phase records; every value with <=2 constructors from the stated '
         'family as scalar and dimensioned value: OutputToJSON must be strict JSON decoding to the rendering, attachments byte-exact.',
    note='The station server itself (tornado) is not importable here; its data source TestState.as_base_types() is checked instead.')

ENGINES.append({'name': 'sched', 'path': 'vf/sched', 'kind_free_text':
    'stateless exploration of the real multithreaded code under a controlled scheduler: threading.Lock/RLock/Event/Condition, '
    'Thread.start/join/is_alive, time and PyThreadState_SetAsyncExc are replaced per execution; sys.monitoring LINE events of focus '
    'functions are scheduling points; DFS over scheduling choices with iterative preemption/clock-deviation bounding; virtual time',
    'serves_properties': ['C03', 'C04', 'C09', 'C11', 'C12', 'C13', 'C14', 'C18', 'C19']})
CHECKS['C18'] = dict(
    engine='sched', level='model_checking', design_ref='DESIGN.md#c18',
    technique='stateless schedule exploration (preemption-bounded DFS) of the real mixin / TestState under a controlled scheduler',
    text='(P) a counter object built on the real SubscribableStateMixin with 1-2 watchers (final-read and snapshot-then-wait styles) and '
         '1-2 updaters: all interleavings at line granularity up to the preemption bound; oracle: a watcher whose snapshot is stale holds '
         'a set event that stays set, a looping watcher always reaches the final state, no watcher blocks forever (deadlock detection). '
         '(S) a real TestState finalized through abort / STOP / timeout / exception / normal with a looping watcher. (R) a watcher thread '
         'attached to whole Test.execute() runs ending PASS / STOP / exception.',
    note='Line-level preemption in the mixin and the TestState status methods; primitive-operation level elsewhere; bounds in evidence.')

CHECKS['C12'] = dict(
    engine='sched', level='model_checking', design_ref='DESIGN.md#c12',
    technique='stateless schedule exploration with virtual time and modelled asynchronous exceptions',
    text='(K) a KillableThread subclass with instrumented body / exception handler / finish handler and one kill() issued before start '
         'or by a second thread: all interleavings at line granularity of run/kill/_is_thread_proc_running/async_raise up to the '
         'preemption bound, judged by where the kill() call began (before start => body never runs; after the body returned => no '
         'effect and handlers complete; during the body => error only in that thread).  (T) real Test.execute() runs with a timed '
         'phase (plain / group main / group teardown) whose body sleeps T-eps, T+, or never returns, under a virtual clock whose timers '
         'may fire early as explored deviations: no false timeout, own result kept, TIMEOUT + teardown + plug tearDown, bounded delay, '
         'nothing of the abandoned body attributed to other phases.',
    note='Async exceptions are delivered at scheduling points of the target (not between arbitrary bytecodes); line granularity.')

CHECKS['C04'] = dict(
    engine='sched', level='model_checking', design_ref='DESIGN.md#c04',
    technique='stateless schedule exploration of abort vs executor vs phase threads under a controlled scheduler (external abort gates, SIGINT on the main thread)',
    text='Real Test.execute() runs of 5 programs (3 plain phases, group with setup/main/teardown, REPEAT phase, subtest, test_start trigger) with '
         'an aborter issuing 1-2 Test.abort_from_sig_int() calls at every offered moment (external gate: free alternative at the decision points '
         'of the filter; all points in thorough) plus preemptions up to the bound inside the abort / phase-start / finalization code at line '
         'granularity, and SIGINT delivered on the main thread while the test is registered.  Oracle on the event log: execute() returns, no '
         'two live bodies, nothing new starts after abort()/kill request returned, teardown + plug tearDown after one abort, ABORTED when abort '
         'returned before finalization, callbacks exactly once, second abort stops teardown, nothing after finalization.',
    note='Harness-owned phase bodies; a body asked to die counts as abandoned (by design of the framework); bounds and gate filters are in the evidence.')

CHECKS['C14'] = dict(
    engine='sched', level='model_checking', design_ref='DESIGN.md#c14',
    technique='device-script/merge enumeration x stateless schedule exploration of the host reader/writer threads with virtual time',
    text='Outer: per-stream device scripts and all their order-preserving merges (2 streams: all 10 merges; 3 streams sampled every k-th merge '
         'in thorough); inner: one reader thread per stream, optionally a writer on the same stream (maxdata 4, multi-chunk), explored under '
         'the controlled scheduler at line granularity in the multiplexer (read_for_stream, _read_messages_until_true, '
         '_handle_message_for_stream, enqueue_message, write/read) up to the deviation bound.  Oracle: bytes read are exactly the scripted '
         'bytes in order (a prefix only if a timer was made to fire early), one OKAY per consumed device WRTE with the stream ids, host chunks '
         '<= maxdata, never two un-acked host WRTEs, every call ends by its timeout, no deadlock / lost wake-up.',
    note='The device queues its scripted messages without waiting for host acks; random schedules are outside this technique family.')

CHECKS['C19'] = dict(
    engine='sched', level='model_checking', design_ref='DESIGN.md#c19',
    technique='exhaustive input/history enumeration on the real logging path + stateless schedule exploration of two concurrent / staggered runs',
    text='inputs: 10 logger kinds (test.logger, record logger and child, plug logger, framework loggers incl. the record prefix itself, another '
         'run\'s record loggers, a uid that is a prefix of the uid, a logger outside openhtf) x 7 message/argument shapes x 6 MAC forms with two '
         'record handlers alive: recorded exactly once in the right run(s), redacted, metadata present, logging call never raises; histories: '
         'all sequences of 3-4 consecutive runs over {pass, fail, exception, timeout}: no handler remains, finished records untouched by later '
         'logging; schedules: two Test.execute() calls in two threads, concurrent and staggered (run B started by an external gate at any '
         'moment of run A\'s close), explored under the controlled scheduler.',
    note='Deviation-bounded (every non-default choice costs 1) for the two-run scenarios because preemption bounding with free forced '
         'switches explodes with 6+ threads; bounds in the evidence.')

CHECKS['C11'] = dict(
    engine='enum', level='model_checking', design_ref='DESIGN.md#c11',
    technique='bounded-exhaustive derive/mutate/execute histories with a deep structural snapshot oracle + schedule exploration of two concurrent tests',
    text='All (operation, source object) histories up to length 3 (4 in thorough) over 13 derive/nest operations (with_args, with_plugs, '
         'PhaseOptions, measures, diagnose, plug, sequence, group variants, subtest, branch, copy), 8 in-place modifications of the derived '
         'object and execute / execute-with-a-conditional-validator-switched-on, applied to a rich base phase and a plain one: after every '
         'step every other object must be structurally unchanged; repeated executions give equal records.  Two Tests built from the same phase '
         'objects run concurrently under the controlled scheduler and must each produce the record they produce alone.',
    note='"Modify" never mutates a shared Measurement declaration object in place (attr_copy shares them by design); deviation-bounded schedules.')
