"""Registry of claimed checks; gen_manifest.py turns it into MANIFEST.json."""
ENGINES = [
    {'name': 'enum', 'path': 'vf/harness', 'kind_free_text':
     'bounded-exhaustive enumeration / explicit-state BFS on the real objects against reference models (vf/ref)',
     'serves_properties': []},
]
NOTES = ('All checks run the real openhtf code from /repo (PYTHONPATH) in a fresh '
         'process; see DESIGN.md.')
NOT_APPLICABLE = {}
CHECKS = {}

CHECKS['C20'] = dict(
    engine='enum', level='model_checking', design_ref='DESIGN.md#c20',
    technique='explicit-state BFS to fixpoint over real _Configuration objects vs reference model',
    text='Every reachable configuration state (three dicts) for a 25/37-operation alphabet over keys '
         '{a,b,u,zz} is visited (BFS to fixpoint, no depth cap hit); after every transition all read APIs '
         '(in, [], attribute, holder.value/.default, _asdict) are compared with an independent model.',
    note='Key/value universe is small and fixed; duplicate flag values for one key are not in the alphabet '
         '(the statement does not order them); --config-file is not exercised.')
