"""Helpers for driving real openhtf tests quietly from harnesses."""
import logging
import sys
import threading

_state = {'init': False}


def init():
  if _state['init']:
    return
  _state['init'] = True
  import openhtf  # pylint: disable=g-import-not-at-top
  from openhtf.util import console_output  # pylint: disable=g-import-not-at-top
  console_output.CLI_QUIET = True
  sys.argv = [sys.argv[0]]
  threading.excepthook = _excepthook


THREAD_ERRORS = []


def _excepthook(args):
  """Quiet, recording replacement for threading.excepthook.

  Abandoned (timed-out / killed) phase threads die with ThreadTerminationError
  some time later; that is expected and not an executor failure.
  """
  name = args.thread.name if args.thread else '?'
  if args.exc_type.__name__ == 'ThreadTerminationError':
    return
  THREAD_ERRORS.append((name, args.exc_type.__name__, str(args.exc_value)))


class Capture(object):
  """Output callback that keeps the record objects it was given."""

  def __init__(self):
    self.records = []

  def __call__(self, rec):
    self.records.append(rec)


def run_test(nodes, test_start=None, callbacks=(), options=None, diagnosers=(),
             metadata=None, profile_filename=None):
  """Builds and executes a Test; returns (result|exception, records, test)."""
  init()
  import openhtf as htf  # pylint: disable=g-import-not-at-top
  cap = Capture()
  test = htf.Test(*nodes, **(metadata or {}))
  test.add_output_callbacks(cap, *callbacks)
  if diagnosers:
    test.add_test_diagnosers(*diagnosers)
  if options:
    test.configure(**options)
  mark = len(THREAD_ERRORS)
  try:
    if profile_filename is not None:
      res = test.execute(test_start=test_start, profile_filename=profile_filename)
    else:
      res = test.execute(test_start=test_start)
  except BaseException as e:  # pylint: disable=broad-except
    res = e
  thread_errors = [e for e in THREAD_ERRORS[mark:] if e[0].startswith('TestExecutorThread')]
  del THREAD_ERRORS[:]
  return res, cap.records, test, thread_errors
