"""C01 no false PASS: programs x behaviours x settings on the real executor.

Two independent oracles per execution:
  soundness  (record based, no reference interpreter) if execute() returned True
             or the outcome is PASS, then every declared leaf is excused by a
             documented rule visible in the record (run_if false, untaken
             branch) or was invoked with a final PASS/SKIP record; no FAIL/ERROR
             record, no FAIL (or disallowed UNSET) measurement in a passing
             record, no failure diagnosis, no failed subtest, records not all
             SKIP, executor thread raised nothing, exactly one record.
  ladder     the outcome equals the reference ladder (abort > first terminal
             event > aggregation) computed by vf/ref/refexec.py.
"""
import itertools
import json

from vf import common, progs
from vf.harness import c02
from vf.ref import refexec

PID = 'C01'


def B(**kw):
  return kw


LEAVES = [
    B(ret=['ok']), B(ret=['continue']), B(ret=['fail']), B(ret=['skip']), B(ret=['stop']), B(ret=['fail_subtest']),
    B(ret=['raise']), B(ret=['raise_f']), B(ret=['raise_fsub']), B(ret=['raise_fbase']), B(ret=['bad']), B(ret=['bad0']), B(ret=['hang']), B(ret=['sysexit']),
    B(ret=['ok'], meas='pass'), B(ret=['ok'], meas='fail'), B(ret=['ok'], meas='unset'), B(ret=['ok'], meas='marg'), B(ret=['ok'], meas='nocopy'),
    B(ret=['ok'], meas='dimunset'), B(ret=['ok'], meas='dimset'), B(ret=['ok'], diag=['AFlist']),
    B(ret=['ok'], diag=['A']), B(ret=['ok'], diag=['iA']), B(ret=['ok'], diag=['FA']), B(ret=['ok'], diag=['raise']), B(ret=['ok'], diag=['raise', 'FA']),
    B(ret=['repeat', 'ok']), B(ret=['repeat', 'repeat', 'repeat']), B(ret=['repeat', 'fail']), B(ret=['repeat', 'skip']),
    B(ret=['repeat', 'ok'], opts={'repeat_limit': 1}),
    B(ret=['raise', 'ok'], opts={'force_repeat': True}),
    B(ret=['ok'], opts={'force_repeat': True, 'repeat_limit': 2}),
    B(ret=['stop', 'ok'], opts={'force_repeat': True}),
    B(ret=['hang', 'ok'], opts={'force_repeat': True}),
    B(ret=['bad', 'ok'], opts={'force_repeat': True, 'repeat_limit': 2}),
    B(ret=['ok'], meas=['fail', 'pass'], opts={'repeat_on_measurement_fail': True}),
    B(ret=['ok'], meas=['fail', 'fail', 'fail'], opts={'repeat_on_measurement_fail': True}),
    B(ret=['hang', 'ok'], opts={'repeat_on_timeout': True}), B(ret=['hangswallow']),
    B(ret=['sysexit', 'ok'], opts={'repeat_on_timeout': True}),
    B(ret=['repeat', 'ok'], meas=['dimbad', 'dimgood']),
    B(ret=['hang'], opts={'repeat_on_timeout': True, 'repeat_limit': 2}),
    B(ret=['ok'], meas='fail', opts={'stop_on_measurement_fail': True}),
    B(ret=['ok'], meas='unset', opts={'stop_on_measurement_fail': True}),
    B(ret=['ok'], opts={'run_if': 'false'}), B(ret=['ok'], opts={'run_if': 'true'}), B(ret=['ok'], opts={'run_if': 'raise'}),
    B(ret=['fail'], opts={'run_if': 'false'}), B(ret=['fail'], opts={'run_if': 'none'}), B(ret=['raise'], opts={'run_if': 'zero'}),
    B(ret=['ok'], opts={'run_if': 'false', 'repeat_on_measurement_fail': True}),
    B(ret=['ok'], opts={'run_if': 'false', 'force_repeat': True}),
]
SECOND = [B(ret=['ok']), B(ret=['fail']), B(ret=['raise']), B(ret=['hang']), B(ret=['ok'], meas='unset'),
          B(ret=['ok'], opts={'run_if': 'false'}), B(ret=['skip'])]

SETTINGS = [
    {}, {'sof': 'option'}, {'sof': 'conf'}, {'allow_unset': True}, {'failure_exceptions': True},
    {'test_diag': ['TA']}, {'test_diag': ['TF']}, {'test_diag': ['raise']}, {'test_diag': ['TF', 'TFok']}, {'test_diag': ['TFgen']},
]
SETTINGS_PAIRS = [
    {'sof': 'option', 'allow_unset': True}, {'sof': 'option', 'failure_exceptions': True},
    {'allow_unset': True, 'test_diag': ['TF']}, {'failure_exceptions': True, 'test_diag': ['raise']},
    {'sof': 'conf', 'test_diag': ['TF', 'TA']}, {'test_diag': ['raise', 'TF']},
]


def soundness(spec, settings, obs):
  """List of (kind, what) for a run that claims PASS."""
  bad = []
  passed = obs.get('ret') is True or obs.get('outcome') == 'PASS'
  if obs.get('n_records') != 1:
    bad.append(('records', 'output callback saw %r records' % obs.get('n_records')))
    return bad
  if (obs.get('ret') is True) != (obs.get('outcome') == 'PASS'):
    bad.append(('ret-vs-outcome', 'execute() returned %r but outcome is %s' % (obs.get('ret'), obs.get('outcome'))))
  if not passed:
    return bad
  if obs.get('thread_errors'):
    bad.append(('executor-failed', 'PASS although the executor thread raised %r' % (obs['thread_errors'],)))
  phases = obs['phases']
  tree, _ = progs.number(spec)
  behs = {}

  def index(nodes):
    for n in nodes:
      if n['k'] == 'p':
        behs[n['name']] = n['beh']
      elif n['k'] in ('seq', 'sub', 'br'):
        index(n['nodes'])
      elif n['k'] == 'grp':
        index(n['setup']); index(n['main']); index(n['teardown'])

  index(tree)
  for p in phases:
    if p[1] in ('FAIL', 'ERROR'):
      bad.append(('bad-record', 'PASS with phase record %s outcome %s (result %s)' % (p[0], p[1], p[2]),
                  'bad-record:p(%s):%s/%s' % (behsig(behs.get(p[0], {})), p[1], p[2])))
    if p[1] == 'PASS':
      for mname, mo in p[6]:
        if mo == 'FAIL' or (mo == 'UNSET' and not settings.get('allow_unset')) or mo == 'PARTIALLY_SET':
          bad.append(('bad-measurement', 'PASS with measurement %s %s in passing phase %s' % (mname, mo, p[0])))
  if phases and all(p[1] == 'SKIP' for p in phases):
    bad.append(('all-skip', 'PASS although all %d phase records are SKIP' % len(phases)))
  if any(f for _, f in obs['diagnoses']):
    bad.append(('failure-diagnosis', 'PASS with a failure diagnosis %r' % (obs['diagnoses'],)))
  if any(o != 'PASS' for _, o in obs['subtests']):
    bad.append(('failed-subtest', 'PASS with subtests %r' % (obs['subtests'],)))
  if any(c[1] not in ('CONTINUE', 'SKIP') for c in obs['checkpoints']):
    bad.append(('checkpoint', 'PASS with checkpoint results %r' % (obs['checkpoints'],)))
  # every declared leaf ran to a non-failing outcome or is excused by a documented rule
  branch_taken = dict(obs['branches'])
  calls = {}
  for c in obs['calls']:
    if c[0] not in ('run_if', 'diag', 'tdiag'):
      calls[c[0]] = calls.get(c[0], 0) + 1
  last_rec = {}
  for p in phases:
    last_rec[p[0]] = p
  ck_recs = {c[0] for c in obs['checkpoints']}

  def walk(nodes, excused):
    for n in nodes:
      k = n['k']
      if k == 'p':
        if excused:
          if calls.get(n['name']):
            bad.append(('ran-in-untaken-branch', 'leaf %s ran although its branch record says not taken' % n['name']))
          continue
        if n['beh'].get('opts', {}).get('run_if') in ('false', 'none', 'zero', 'empty'):
          if calls.get(n['name']) or n['name'] in last_rec:
            bad.append(('run_if-false-ran', 'leaf %s has run_if false but calls=%r record=%r'
                        % (n['name'], calls.get(n['name']), last_rec.get(n['name']))))
          continue
        if not calls.get(n['name']):
          bad.append(('leaf-not-run', 'PASS although declared leaf %s was never invoked and no documented rule excuses it'
                      % n['name']))
        elif n['name'] not in last_rec or last_rec[n['name']][1] not in ('PASS', 'SKIP'):
          bad.append(('leaf-no-pass-record', 'PASS although leaf %s has final record %r' % (n['name'], last_rec.get(n['name']))))
      elif k == 'c':
        if not excused and n['name'] not in ck_recs:
          bad.append(('checkpoint-not-evaluated', 'PASS although checkpoint %s has no record' % n['name']))
      elif k in ('seq', 'sub'):
        walk(n['nodes'], excused)
      elif k == 'br':
        if excused:
          walk(n['nodes'], True)
        elif n['name'] not in branch_taken:
          bad.append(('branch-not-evaluated', 'PASS although branch %s has no record' % n['name']))
          walk(n['nodes'], True)
        else:
          walk(n['nodes'], not branch_taken[n['name']])
      elif k == 'grp':
        walk(n['setup'], excused)
        walk(n['main'], excused)
        walk(n['teardown'], excused)

  walk(tree, False)
  return bad


def evaluate(spec, settings):
  obs = progs.run_spec(spec, settings)
  tree, _ = progs.number(spec)
  bad = soundness(spec, settings, obs)
  if 'nocopy' in json.dumps(spec):
    # the executor itself fails in this program: only the soundness predicate applies (never PASS, ret False)
    return bad, obs
  exp = refexec.execute(tree, settings)
  if obs.get('outcome') != exp['outcome']:
    bad.append(('ladder', 'outcome %s, reference ladder says %s (records %r, thread errors %r)'
                % (obs.get('outcome'), exp['outcome'], [(p[0], p[1], p[2]) for p in obs.get('phases', [])],
                   obs.get('thread_errors'))))
  return bad, obs


def behsig(b):
  s = ','.join(b.get('ret', ['ok']))
  if b.get('meas'):
    s += '/m=' + (','.join(b['meas']) if isinstance(b['meas'], list) else b['meas'])
  if b.get('diag'):
    s += '/d=' + ','.join(b['diag'])
  if b.get('opts'):
    s += '/' + ','.join('%s=%s' % kv for kv in sorted(b['opts'].items()))
  return s


def sig_of(spec, settings):
  def w(n):
    k = n[0]
    if k == 'p':
      return 'p(%s)' % behsig(n[1])
    if k == 'c':
      return 'c(%s,%s)' % (n[1], n[2])
    if k in ('seq', 'sub'):
      return '%s[%s]' % (k, ' '.join(map(w, n[1])))
    if k == 'br':
      return 'br(%s)[%s]' % (n[1][0], ' '.join(map(w, n[2])))
    return 'grp[%s|%s|%s]' % (' '.join(map(w, n[1])), ' '.join(map(w, n[2])), ' '.join(map(w, n[3])))
  return '%s @%s' % (' '.join(map(w, spec)), json.dumps(settings, sort_keys=True))


def programs(tier):
  """Yields (family, spec) lazily."""
  allk = ['c', 'grp', 'sub', 'br']
  for shape in progs.shapes(1, 2, allk):
    for spec in progs.fill(shape, LEAVES, c02.CKPT_FULL, c02.BR_FULL):
      yield 'k1', spec
  for shape in progs.shapes(2, 1, ['grp', 'sub', 'br']):
    for spec in fill2(shape, tier):
      yield 'k2', spec
  for shape in progs.shapes(2, 0, ['c']):
    if any(n[0] == 'c' for n in shape):
      for spec in progs.fill(shape, LEAVES, c02.CKPT_FULL, c02.BR_SMALL):
        yield 'k2c', spec
  if tier == 'thorough':
    for shape in progs.shapes(2, 1, ['c', 'grp', 'sub']):
      if any('c' in json.dumps(shape) for _ in [0]):
        for spec in fill_positional(shape, [LEAVES, SECOND]):
          yield 'k2cd', spec
    for shape in progs.shapes(3, 1, ['grp', 'sub']):
      for spec in fill3(shape):
        yield 'k3', spec


def fill2(shape, tier):
  """First leaf from the full alphabet, second from SECOND (and vice versa in thorough)."""
  first = LEAVES
  for spec in fill_positional(shape, [first, SECOND]):
    yield spec
  if tier == 'thorough':
    for spec in fill_positional(shape, [SECOND, first]):
      yield spec


def fill3(shape):
  small = [B(ret=['ok']), B(ret=['fail']), B(ret=['raise']), B(ret=['ok'], opts={'run_if': 'false'}),
           B(ret=['raise', 'ok'], opts={'force_repeat': True}), B(ret=['ok'], meas='unset')]
  return fill_positional(shape, [small, small, small])


def fill_positional(shape, domains):
  """Like progs.fill but with a per-leaf-position alphabet; branches get BR_SMALL."""
  slots = []

  def collect(nodes):
    for n in nodes:
      if n[0] == 'p':
        slots.append('p')
      elif n[0] == 'c':
        slots.append('c')
      elif n[0] in ('seq', 'sub'):
        collect(n[1])
      elif n[0] == 'br':
        slots.append('b')
        collect(n[2])
      elif n[0] == 'grp':
        collect(n[1]); collect(n[2]); collect(n[3])

  collect(shape)
  doms, pi = [], 0
  for s in slots:
    if s == 'p':
      doms.append(domains[min(pi, len(domains) - 1)])
      pi += 1
    elif s == 'c':
      doms.append(c02.CKPT_SMALL)
    else:
      doms.append(c02.BR_SMALL)
  for combo in itertools.product(*doms):
    it = iter(combo)

    def rebuild(nodes):
      out = []
      for n in nodes:
        if n[0] == 'p':
          out.append(['p', next(it)])
        elif n[0] == 'c':
          kind, action = next(it)
          out.append(['c', kind, action])
        elif n[0] in ('seq', 'sub'):
          out.append([n[0], rebuild(n[1])])
        elif n[0] == 'br':
          cond = next(it)
          out.append(['br', cond, rebuild(n[2])])
        else:
          out.append(['grp', rebuild(n[1]), rebuild(n[2]), rebuild(n[3])])
      return out

    yield rebuild(shape)


def _work(item):
  tier, start, step = item
  settings_list = SETTINGS + (SETTINGS_PAIRS if tier == 'thorough' else [])
  n = 0
  viols = []
  outcomes = set()
  sample = None
  for i, (fam, spec) in enumerate(programs(tier)):
    if i % step != start:
      continue
    if fam == 'k2' and tier == 'quick':
      sl = [SETTINGS[0], SETTINGS[1], SETTINGS[3], SETTINGS[4], SETTINGS[6]]
    else:
      sl = settings_list if fam != 'k3' else SETTINGS[:4]
    for st in sl:
      n += 1
      bad, obs = evaluate(spec, st)
      outcomes.add((obs.get('outcome'), obs.get('ret'), len(obs.get('phases') or [])))
      if sample is None and i > 40:
        sample = {'program': sig_of(spec, st), 'outcome': obs.get('outcome')}
      for b in bad:
        kind, what = b[0], b[1]
        sig = b[2] if len(b) > 2 else '%s:%s' % (kind, sig_of(spec, st))
        viols.append((sig, '%s: %s' % (sig_of(spec, st), what), {'spec': spec, 'settings': st}))
  return n, viols, sorted(outcomes, key=repr), sample


def run(tier):
  rep = common.Report(PID, tier, 'model_checking')
  step = common.NCPU * 6
  res = common.pmap(_work, common.rotate([(tier, s, step) for s in range(step)]), chunksize=1)
  n = sum(r[0] for r in res)
  outcomes = set()
  samples = []
  for r in res:
    rep.merge_violations(r[1])
    outcomes.update(map(tuple, r[2]))
    if r[3] and len(samples) < 3:
      samples.append(r[3])
  rep.add_part('programs-x-settings', states=n, transitions=n, traces_validated_against_impl=n,
               evaluations=n, distinct_nontrivial=len(outcomes), exhaustive=True, samples=samples)
  run_aborts(rep, tier)
  rep.assumptions = [
      'programs: every tree with 1 leaf slot (depth<=2, all node kinds) x %d behaviours; every tree with 2 leaf slots '
      '(depth 1, groups/subtests/branches) x %d x %d behaviours; settings: defaults and every single deviation '
      '(pairs of deviations and 3-leaf programs in the thorough tier)' % (len(LEAVES), len(LEAVES), len(SECOND)),
      'timeouts are produced with timeout_s=0 on a body that never returns (virtual time is C12\'s subject)',
      'aborts: C04\'s scenario (operator abort at filtered moments incl. plug tearDown, real threads under the controlled '
      'scheduler) judged by C01\'s rule only: an abort that returned before the outcome was decided gives ABORTED, never PASS, '
      'and execute() returns True iff the outcome is PASS',
  ]
  return rep.finish(rule='states = (program, settings) executions on the real Test.execute(); each checked by the '
                         'record-based PASS-soundness predicate and against the reference outcome ladder')


# ---- "an abort gives ABORTED" (schedules; reuses C04's scenario and event log) ---------------------------------------
ABORT_KINDS = ('not-aborted', 'pass-after-abort', 'no-return', 'harness-exception', 'bad-return')


def abort_check(cfg):
  from vf.harness import c04  # pylint: disable=g-import-not-at-top

  def chk(ex):
    rep = {'part': 'aborts', 'cfg': list(cfg), 'choices': ex.choices}
    out = []
    for kind, what in c04.analyse(cfg, ex):
      if kind.startswith(ABORT_KINDS):
        out.append(('aborts:%s:%s' % (kind, cfg[0]), '%s with %d abort(s): %s' % (cfg[0], cfg[1], what), rep))
    v = ex.result['value']
    if isinstance(v, dict) and v.get('res') is True and v.get('outcome') != 'PASS':
      out.append(('aborts:true-without-pass:%s' % cfg[0], 'execute() returned True with outcome %s' % v.get('outcome'), rep))
    return out
  return chk


def run_aborts(rep, tier):
  from vf.harness import c04  # pylint: disable=g-import-not-at-top
  from vf.sched import explore  # pylint: disable=g-import-not-at-top
  cfgs = [(('plain3', 1, 'thread', 'wide'), 0), (('group', 1, 'thread', 'wide'), 0)]
  if tier == 'thorough':
    cfgs += [(('subtest', 1, 'thread', 'wide'), 0), (('repeat', 1, 'thread', 'wide'), 0), (('plain3', 1, 'thread', 'body'), 1)]
  explore.set_plan(common.thorough_budget(tier, 300.0), len(cfgs))
  for cfg, bound in cfgs:
    r = explore.explore('C01:A:%r' % (cfg,), lambda ch, cfg=cfg: c04.execute(cfg, ch), abort_check(cfg), bound, cap=60000)
    rep.merge_violations(r['violations'])
    rep.add_part('aborts %s' % cfg[0], states=max(1, r['states']), transitions=r['steps'], traces_validated_against_impl=r['executions'],
                 evaluations=r['executions'], deviation_bound=bound, exhaustive=not r['capped'],
                 samples=r['samples'] or [{'choices': []}])


def replay(art):
  r = art['replay']
  if r.get('part') == 'aborts':
    from vf.harness import c04  # pylint: disable=g-import-not-at-top
    cfg = tuple(r['cfg'])
    ex = c04.execute(cfg, r['choices'])
    print(ex.result['value'])
    bad = abort_check(cfg)(ex)
    for b in bad:
      print('VIOLATED', b[0], b[1][:500])
    return 1 if bad else 0
  bad, obs = evaluate(r['spec'], r['settings'])
  print(sig_of(r['spec'], r['settings']))
  print('outcome', obs.get('outcome'), 'ret', obs.get('ret'), 'phases', [(p[0], p[1], p[2]) for p in obs.get('phases', [])])
  for b in bad:
    print('VIOLATED', b)
  return 1 if bad else 0
