"""C16 fastboot: explicit-state exploration of the host protocol loop.

A state is (command, response-script prefix fully consumed by the host while
it is still waiting).  Every state is expanded with every response of the
alphabet; each expansion runs the real FastbootCommands method over a scripted
fake bootloader and is compared with vf/ref/fbspec.py.  Scripts are only
extended while the reference says the host is still waiting, so the search
covers *all* response sequences up to the length bound (longer tails are never
read by a terminated command).
"""
import io
import os
import tempfile

from vf import common, usbstub
from vf.ref import fbspec

PID = 'C16'
CHUNK = 1024


class Silence(Exception):
  """Raised by the fake bootloader when its script is exhausted (timeout)."""


class Runaway(Exception):
  """The host wrote far more packets than any correct run can (loop guard)."""


class FakeUsb(object):

  def __init__(self, script):
    self.script = list(script)
    self.pos = 0
    self.writes = []
    self.closed = False

  def read(self, n, timeout_ms=None):
    if self.pos >= len(self.script):
      raise Silence()
    r = self.script[self.pos]
    self.pos += 1
    return r[:n]

  def write(self, data, timeout_ms=None):
    self.writes.append(data)
    if len(self.writes) > 40:
      raise Runaway('host keeps writing: %d writes' % len(self.writes))

  def close(self):
    self.closed = True


def _mods():
  usbstub.install()
  from openhtf.plugs.usb import fastboot_protocol, usb_exceptions  # pylint: disable=g-import-not-at-top
  fastboot_protocol.FASTBOOT_DOWNLOAD_CHUNK_SIZE_KB = CHUNK // 1024
  return fastboot_protocol, usb_exceptions


def image_of(n):
  return ''.join(chr(33 + (i * 7 + i // 1024) % 90) for i in range(n))


SIMPLE = [
    # name, packet, call(cmds, cb), has_cb, returns
    ('flash', 'flash:boot', lambda c, cb: c.flash('boot', info_cb=cb), True, True),
    ('flash_colon', 'flash:a:b', lambda c, cb: c.flash('a:b', info_cb=cb, timeout_ms=5), True, True),
    ('erase', 'erase:cache', lambda c, cb: c.erase('cache'), False, False),
    ('getvar', 'getvar:version', lambda c, cb: c.get_var('version', info_cb=cb), True, True),
    ('oem', 'oem poweroff', lambda c, cb: c.oem('poweroff', info_cb=cb), True, True),
    ('continue', 'continue', lambda c, cb: c.continue_(), False, True),
    ('reboot', 'reboot', lambda c, cb: c.reboot(), False, True),
    ('reboot_arg', 'reboot:recovery', lambda c, cb: c.reboot('recovery', timeout_ms=1), False, True),
    ('reboot_bl', 'reboot-bootloader', lambda c, cb: c.reboot_bootloader(), False, True),
    # an argument that is given but empty is still an argument: "command:" 
    ('erase_empty', 'erase:', lambda c, cb: c.erase(''), False, False),
    ('getvar_empty', 'getvar:', lambda c, cb: c.get_var('', info_cb=cb), True, True),
    # commands longer than one 64-byte fastboot response: still one packet
    ('oem_long', 'oem ' + 'setprop persist.x ' * 4, lambda c, cb: c.oem('setprop persist.x ' * 4, info_cb=cb), True, True),
    ('getvar_64', 'getvar:' + 'v' * 57, lambda c, cb: c.get_var('v' * 57, info_cb=cb), True, True),
    ('getvar_65', 'getvar:' + 'v' * 58, lambda c, cb: c.get_var('v' * 58, info_cb=cb), True, True),
]

SIMPLE_ALPHA = ['INFOa', 'INFO', 'OKAY', 'OKAYxy', 'DATA00000001', 'FAILboom',
                'XXXXjunk', 'OK', '', 'okay', 'FAIL5% full %s', '%d%%XX',       # (device text is data, never a format string)
                'INFOline1\nline2', 'OKAYslot-a: yes\nslot-b: no', 'FAILno space\nleft']     # (... and may span lines)


def classify(exc, ue):
  if exc is None:
    return None
  if isinstance(exc, Silence):
    return 'silence'
  for cls, kind in ((ue.FastbootStateMismatchError, 'state_mismatch'),
                    (ue.FastbootRemoteFailureError, 'remote_failure'),
                    (ue.FastbootInvalidResponseError, 'invalid_response'),
                    (ue.FastbootTransferError, 'transfer')):
    if isinstance(exc, cls):
      return kind
  return 'other:' + type(exc).__name__


def run_simple(entry, script):
  fp, ue = _mods()
  name, packet, call, has_cb, returns = entry
  usb = FakeUsb(script)
  cmds = fp.FastbootCommands(usb)
  infos = []
  cb = lambda m: infos.append((m.header, m.message))
  ret, exc = None, None
  try:
    ret = call(cmds, cb)
  except Exception as e:  # pylint: disable=broad-except
    exc = e
  exp = fbspec.simple(packet, script)
  bad = []
  if usb.writes != exp['writes']:
    bad.append(('packets', 'device received %r, expected exactly %r' % (usb.writes, exp['writes'])))
  if has_cb:
    got_infos = [m for h, m in infos if h == 'INFO']
    if got_infos != exp['infos']:
      bad.append(('info', 'INFO callbacks %r expected %r' % (got_infos, exp['infos'])))
  kind = classify(exc, ue)
  if exp['result'][0] == 'ret':
    if kind is not None:
      bad.append(('result', 'raised %s(%s), expected return %r' % (kind, exc, exp['result'][1])))
    elif returns and ret != exp['result'][1]:
      bad.append(('result', 'returned %r expected %r' % (ret, exp['result'][1])))
  else:
    if kind != exp['result'][1]:
      bad.append(('result', 'got %s (ret=%r exc=%r), expected %s' % (kind, ret, exc, exp['result'][1])))
    elif kind == 'remote_failure' and exp['result'][2] not in str(exc):
      bad.append(('failtext', 'FAIL text %r not in %r' % (exp['result'][2], str(exc))))
  if usb.pos != exp['consumed']:
    bad.append(('consumed', 'host read %d responses, expected %d' % (usb.pos, exp['consumed'])))
  waiting = exp['result'] == ('exc', 'silence', '')
  return bad, waiting, (kind, ret if returns else None)


def dl_alpha(n):
  return ['INFOa', 'INFO', 'DATA%08x' % n, 'DATA%08xtail' % n,
          'DATA%08x' % (n + 1), 'DATA%08x' % (n + 0x100), 'DATA0000', 'DATAzzzzzzzz',
          'OKAY', 'OKAYdone', 'FAILnospace', 'XXXX', '', 'DA', 'FAIL9% %s', 'OKAYtwo\nlines']


class ShortSource(object):
  """A file-like image source that hands out at most PIECE characters per read() (a pipe / raw / socket style object)."""
  PIECE = 700

  def __init__(self, image):
    self._io = io.StringIO(image)

  def read(self, n=-1):
    return self._io.read(self.PIECE if n is None or n < 0 else min(n, self.PIECE))


def run_download(mode, n, script, cbmode, tmpdir):
  """mode: filelike_len | filelike_nolen | filelike_short | path | flash_from_file."""
  fp, ue = _mods()
  image = image_of(n)
  usb = FakeUsb(script)
  cmds = fp.FastbootCommands(usb)
  infos = []
  cb = lambda m: infos.append((m.header, m.message))
  prog = []

  def pcb(cur, total):
    prog.append((cur, total))
    if cbmode == 'raising':
      raise RuntimeError('progress callback failure')

  pc = None if cbmode == 'none' else pcb
  path = os.path.join(tmpdir, 'img%d' % n)
  if mode in ('path', 'flash_from_file') and not os.path.exists(path):
    with open(path, 'w', newline='') as f:
      f.write(image)
  ret, exc = None, None
  try:
    if mode == 'filelike_len':
      ret = cmds.download(io.StringIO(image), source_len=n, info_cb=cb, progress_callback=pc)
    elif mode == 'filelike_nolen':
      ret = cmds.download(io.StringIO(image), info_cb=cb, progress_callback=pc)
    elif mode == 'filelike_offset':
      # the image sits behind a container header in the same file object: what counts is what lies behind the current position
      src = io.StringIO('HDR!' * 75 + image)
      src.seek(300)
      ret = cmds.download(src, info_cb=cb, progress_callback=pc)
    elif mode == 'filelike_short':
      ret = cmds.download(ShortSource(image), source_len=n, info_cb=cb, progress_callback=pc)
    elif mode == 'path':
      ret = cmds.download(path, info_cb=cb, progress_callback=pc)
    else:
      ret = cmds.flash_from_file('boot', path, info_cb=cb, progress_callback=pc)
  except Exception as e:  # pylint: disable=broad-except
    exc = e
  exp = fbspec.download(image, CHUNK, script)
  exp_writes_tail = []
  if mode == 'flash_from_file' and exp['result'][0] == 'ret':
    e2 = fbspec.simple('flash:boot', script, exp['consumed'])
    exp_writes_tail = e2['writes']
    exp = dict(exp)
    exp['infos'] = exp['infos'] + e2['infos']
    exp['consumed'] = e2['consumed']
    if e2['result'][0] == 'ret':
      exp['result'] = ('ret', exp['result'][1] + e2['result'][1])
    else:
      exp['result'] = e2['result']
  bad = []
  kind = classify(exc, ue)
  w = usb.writes
  if not w or w[0] != exp['writes'][0]:
    bad.append(('packets', 'first packet %r expected %r' % (w[:1], exp['writes'][0])))
  body = w[1:]
  if exp_writes_tail and body and body[-1] == exp_writes_tail[0]:
    body = body[:-1]
  elif exp_writes_tail:
    bad.append(('packets', 'flash packet missing: %r' % (w[-1:],)))
  if 'image' in exp:
    if ''.join(body) != image:
      bad.append(('image', 'device got %d image bytes in %d chunks (sizes %r), expected exactly the %d-byte image'
                  % (sum(map(len, body)), len(body), [len(b) for b in body][:6], n)))
    if any(len(b) > CHUNK for b in body):
      bad.append(('chunk', 'chunk sizes %r exceed %d' % ([len(b) for b in body], CHUNK)))
    if pc is not None:
      sums, s = [], 0
      for b in body:
        s += len(b)
        sums.append((s, n))
      if prog != sums:
        bad.append(('progress', 'progress calls %r expected cumulative %r' % (prog, sums)))
  else:
    if body:
      bad.append(('nobytes', '%d bytes sent although device did not accept the size (script %r)'
                  % (sum(map(len, body)), script)))
  got_infos = [m for h, m in infos if h == 'INFO']
  if got_infos != exp['infos']:
    bad.append(('info', 'INFO callbacks %r expected %r' % (got_infos, exp['infos'])))
  if exp['result'][0] == 'ret':
    if kind is not None:
      bad.append(('result', 'raised %s(%s), expected return %r' % (kind, exc, exp['result'][1])))
    elif ret != exp['result'][1]:
      bad.append(('result', 'returned %r expected %r' % (ret, exp['result'][1])))
  elif exp['result'][1] == 'any':
    if kind is None:
      bad.append(('result', 'malformed DATA accepted: returned %r' % (ret,)))
  else:
    if kind != exp['result'][1]:
      bad.append(('result', 'got %s (ret=%r exc=%r), expected %s' % (kind, ret, exc, exp['result'][1])))
    elif kind == 'remote_failure' and exp['result'][2] not in str(exc):
      bad.append(('failtext', 'FAIL text %r not in %r' % (exp['result'][2], str(exc))))
  if exp['result'][1:2] != ('any',) and usb.pos != exp['consumed']:
    bad.append(('consumed', 'host read %d responses, expected %d' % (usb.pos, exp['consumed'])))
  waiting = exp['result'] == ('exc', 'silence', '')
  return bad, waiting, (kind, ret, len(body))


def explore(runner, alpha, depth, label):
  """DFS over response scripts; returns (states, transitions, viols, outcomes, samples)."""
  states, transitions = 0, 0
  viols, outcomes, samples = [], set(), []
  stack = [[]]
  while stack:
    script = stack.pop()
    bad, waiting, outcome = runner(script)
    states += 1
    outcomes.add(repr(outcome))
    for kind, what in bad:
      viols.append(('%s:%s:%s' % (label, kind, '|'.join(s[:4] for s in script)),
                    '%s script=%r: %s' % (label, script, what),
                    {'label': label, 'script': script}))
    if len(samples) < 2 and len(script) >= 3:
      samples.append({'cmd': label, 'script': script, 'outcome': repr(outcome)})
    if waiting and len(script) < depth:
      for a in common.rotate(alpha):
        transitions += 1
        stack.append(script + [a])
  return states, transitions, viols, sorted(outcomes), samples


def _work(item):
  kind = item[0]
  if kind == 'simple':
    _, idx, depth = item
    entry = SIMPLE[idx]
    return explore(lambda s: run_simple(entry, s), SIMPLE_ALPHA, depth, entry[0])
  _, mode, n, cbmode, depth = item
  tmpdir = tempfile.mkdtemp(prefix='vf_c16_')
  try:
    label = '%s/n=%d/cb=%s' % (mode, n, cbmode)
    return explore(lambda s: run_download(mode, n, s, cbmode, tmpdir),
                   dl_alpha(n), depth, label)
  finally:
    import shutil  # pylint: disable=g-import-not-at-top
    shutil.rmtree(tmpdir, ignore_errors=True)


def work_items(tier):
  depth = 5 if tier == 'quick' else 7
  items = [('simple', i, depth + 1) for i in range(len(SIMPLE))]
  sizes = [0, 1, CHUNK - 1, CHUNK, CHUNK + 1, 2 * CHUNK - 1, 2 * CHUNK, 2 * CHUNK + 1]
  if tier == 'thorough':
    sizes += [3 * CHUNK, 3 * CHUNK + 5, 255, 256]
  for mode in ('filelike_len', 'filelike_nolen', 'filelike_short', 'filelike_offset', 'path', 'flash_from_file'):
    for n in sizes:
      for cbmode in ('none', 'recording', 'raising'):
        if tier == 'quick' and cbmode == 'none' and mode != 'filelike_len':
          continue
        items.append(('dl', mode, n, cbmode, depth))
  return items


# ---- two commands on ONE FastbootCommands object: every command is sent, every answer is the device's current answer ----
PAIR_SCRIPTS = [['OKAYone'], ['INFOi', 'OKAYtwo'], ['FAILno'], ['OKAY']]


def run_pair(e1, s1, e2, s2):
  fp, ue = _mods()
  usb = FakeUsb(list(s1) + list(s2))
  cmds = fp.FastbootCommands(usb)
  bad = []
  done = 0
  for k, (entry, script) in enumerate(((e1, s1), (e2, s2))):
    name, packet, call, has_cb, returns = entry
    infos = []
    cb = lambda m, infos=infos: infos.append((m.header, m.message))
    ret, exc = None, None
    w0 = len(usb.writes)
    try:
      ret = call(cmds, cb)
    except Exception as e:  # pylint: disable=broad-except
      exc = e
    exp = fbspec.simple(packet, script)
    if usb.writes[w0:] != exp['writes']:
      bad.append(('packets', 'command %d (%s): device received %r, expected exactly %r' % (k, name, usb.writes[w0:], exp['writes'])))
    if has_cb and [m for h, m in infos if h == 'INFO'] != exp['infos']:
      bad.append(('info', 'command %d (%s): INFO callbacks %r expected %r' % (k, name, infos, exp['infos'])))
    kind = classify(exc, ue)
    if exp['result'][0] == 'ret':
      if kind is not None:
        bad.append(('result', 'command %d (%s) raised %s(%s), expected return %r' % (k, name, kind, exc, exp['result'][1])))
      elif returns and ret != exp['result'][1]:
        bad.append(('result', 'command %d (%s) returned %r, the device answered %r' % (k, name, ret, exp['result'][1])))
    elif kind != exp['result'][1]:
      bad.append(('result', 'command %d (%s): got %s (ret=%r exc=%r), expected %s' % (k, name, kind, ret, exc, exp['result'][1])))
    done += exp['consumed']
    if usb.pos != done:
      bad.append(('consumed', 'after command %d the host had read %d responses, expected %d' % (k, usb.pos, done)))
      break
  return bad


# ---- two downloads on ONE connection object: the second one's progress starts from zero whatever happened to the first ----
def run_download_pair(n1, tail1, n2):
  fp, ue = _mods()
  script = ['DATA%08x' % n1] + list(tail1) + ['DATA%08x' % n2, 'OKAYdone']
  usb = FakeUsb(script)
  cmds = fp.FastbootCommands(usb)
  bad = []
  prog1, prog2 = [], []
  try:
    cmds.download(io.StringIO(image_of(n1)), source_len=n1, progress_callback=lambda c, t: prog1.append((c, t)))
  except Exception:  # pylint: disable=broad-except
    pass           # the first download may fail: that is the point
  w0 = len(usb.writes)
  ret, exc = None, None
  try:
    ret = cmds.download(io.StringIO(image_of(n2)), source_len=n2, progress_callback=lambda c, t: prog2.append((c, t)))
  except Exception as e:  # pylint: disable=broad-except
    exc = e
  if exc is not None or ret != 'done':
    bad.append(('result', 'second download returned %r / raised %r, the device answered OKAYdone' % (ret, exc)))
  body = usb.writes[w0 + 1:]
  if ''.join(body) != image_of(n2):
    bad.append(('image', 'second download sent %d bytes, image has %d' % (sum(map(len, body)), n2)))
  sums, acc = [], 0
  for b in body:
    acc += len(b)
    sums.append((acc, n2))
  if prog2 != sums:
    bad.append(('progress', 'second download reported progress %r, expected cumulative %r (first download: %d bytes, ended by %r)'
                % (prog2, sums, n1, list(tail1))))
  return bad


DL_PAIR_TAILS = [['OKAY'], ['FAILnospace'], ['XXXXjunk'], ['DATA00000001'], ['INFOx', 'FAILlate']]


def _pair_work(item):
  i1, start, step = item
  n, viols = 0, []
  k = 0
  for i2 in range(len(SIMPLE)):
    for a, s1 in enumerate(PAIR_SCRIPTS):
      for b, s2 in enumerate(PAIR_SCRIPTS):
        n += 1
        for kind, what in run_pair(SIMPLE[i1], s1, SIMPLE[i2], s2):
          viols.append(('pairs:%s:%s>%s' % (kind, SIMPLE[i1][0], SIMPLE[i2][0]), '%s%r then %s%r on one connection object: %s'
                        % (SIMPLE[i1][0], s1, SIMPLE[i2][0], s2, what), {'pair': [i1, a, i2, b]}))
  return n, viols


def run(tier):
  rep = common.Report(PID, tier, 'model_checking')
  pres = common.pmap(_pair_work, [(i, 0, 1) for i in range(len(SIMPLE))], chunksize=1)
  for r in pres:
    rep.merge_violations(r[1])
  npairs = sum(r[0] for r in pres)
  rep.add_part('two commands on one connection object', states=npairs, transitions=2 * npairs, traces_validated_against_impl=npairs,
               exhaustive=True, samples=[{'commands': [e[0] for e in SIMPLE], 'scripts': PAIR_SCRIPTS}])
  ndl = 0
  for n1 in (1, 1025, 3072):
    for ti, tail in enumerate(DL_PAIR_TAILS):
      for n2 in (1, 1025, 2048):
        ndl += 1
        for kind, what in run_download_pair(n1, tail, n2):
          rep.merge_violations([('dlpairs:%s:%s' % (kind, tail[-1][:4]), 'download(%d) answered %r, then download(%d) on the same object: %s'
                                 % (n1, tail, n2, what), {'dlpair': [n1, ti, n2]})])
  rep.add_part('two downloads on one connection object', states=ndl, transitions=2 * ndl, traces_validated_against_impl=ndl,
               exhaustive=True, samples=[{'first_download_ends_with': DL_PAIR_TAILS, 'sizes': [1, 1025, 2048, 3072]}])
  items = work_items(tier)
  res = common.pmap(_work, items, chunksize=1)
  st = tr = 0
  outcomes = set()
  samples = []
  for (s, t, viols, outs, smp) in res:
    st += s
    tr += t
    rep.merge_violations(viols)
    outcomes.update(outs)
    samples.extend(smp[:1])
  rep.add_part('fastboot', states=st, transitions=tr,
               traces_validated_against_impl=st, exhaustive=True,
               samples=samples[:6])
  rep.assumptions = [
      'chunk size set to 1 KiB through the module constant FASTBOOT_DOWNLOAD_CHUNK_SIZE_KB',
      'images are ASCII text (the code is py2-style str based); erase() return value not compared (undocumented)',
      'malformed DATA (non-hex/short size) only required to raise and send no image bytes',
  ]
  return rep.finish(
      distinct_outcomes=len(outcomes), work_items=len(items),
      rule='all response scripts up to the depth bound (extended only while the '
           'reference says the host still waits), per command and image size; '
           'each executed on the real FastbootCommands over a scripted fake device')


def replay(art):
  if 'dlpair' in art.get('replay', {}):
    n1, ti, n2 = art['replay']['dlpair']
    bad = run_download_pair(n1, DL_PAIR_TAILS[ti], n2)
    for x in bad:
      print('VIOLATED', x)
    return 1 if bad else 0
  if 'pair' in art.get('replay', {}):
    i1, a, i2, b = art['replay']['pair']
    bad = run_pair(SIMPLE[i1], PAIR_SCRIPTS[a], SIMPLE[i2], PAIR_SCRIPTS[b])
    for x in bad:
      print('VIOLATED', x)
    return 1 if bad else 0
  r = art['replay']
  label, script = r['label'], r['script']
  for e in SIMPLE:
    if e[0] == label:
      bad, _, out = run_simple(e, script)
      break
  else:
    mode, n, cb = label.split('/')
    tmpdir = tempfile.mkdtemp(prefix='vf_c16_')
    bad, _, out = run_download(mode, int(n[2:]), script, cb[3:], tmpdir)
  print('outcome', out)
  for b in bad:
    print('MISMATCH', b)
  return 1 if bad else 0
