"""C12 phase timeout and thread kill: schedule exploration with virtual time.

harness K  a KillableThread subclass (body with 3 yield points, logging exception
           and finish handlers) and one kill() issued before start, or from a
           second thread at any moment; line-level scheduling points in
           KillableThread.run / kill / _is_thread_proc_running / async_raise.
           Oracle by the position of the kill() *call*.
harness T  real Test.execute() runs with a timed phase (plain / group main /
           group teardown) whose body sleeps a virtual duration around the
           timeout or never returns; timer firings are explored as deviations.
"""
import threading
import time

from vf import common, htf
from vf.sched import explore, runtime

PID = 'C12'


def thr():
  htf.init()
  from openhtf.util import threads  # pylint: disable=g-import-not-at-top
  return threads


def scenario_k(mode):
  threads = thr()

  class KT(threads.KillableThread):

    def _thread_proc(self):
      runtime.vlog('body-start')
      try:
        for i in range(3):
          runtime.yield_point('body-%d' % i)
      except threads.ThreadTerminationError:
        runtime.vlog('exc-in-body')
        if mode != 'double-kill':
          raise
        # a body that absorbs the first request (a retry wrapper, a clean-up handler) and goes on working
        runtime.vlog('swallowed')
      if mode == 'double-kill':
        box['swallowed'].set()
        try:
          for i in range(4):
            runtime.vlog('body2-%d' % i)
            runtime.yield_point('body2-%d' % i)
        except threads.ThreadTerminationError:
          runtime.vlog('exc2-in-body')
          raise
      runtime.vlog('body-end')

    def _thread_exception(self, exc_type, exc_val, exc_tb):
      runtime.vlog('handler-exc-start', exc_type.__name__)
      try:
        runtime.yield_point('handler-exc')
      except threads.ThreadTerminationError:
        runtime.vlog('exc-in-handler')
        raise
      runtime.vlog('handler-exc-end')
      return super(KT, self)._thread_exception(exc_type, exc_val, exc_tb)

    def _thread_finished(self):
      if mode == 'double-kill':
        box['swallowed'].set()        # (harness: never leave the second requester waiting)
      runtime.vlog('finished-start')
      try:
        runtime.yield_point('finished')
      except threads.ThreadTerminationError:
        runtime.vlog('exc-in-finished')
        raise
      runtime.vlog('finished-end')

  box = {}

  def fn(sched):
    swallowed = box['swallowed'] = threading.Event()      # (created under the scheduler: a controlled primitive)
    t = KT(name='victim')
    if mode == 'double-kill':
      def killer2():
        runtime.vlog('kill-call')
        t.kill()
        runtime.vlog('kill-return')
        swallowed.wait(5.0)
        runtime.vlog('kill2-call')
        t.kill()
        runtime.vlog('kill2-return')
      k = threading.Thread(target=killer2, name='killer')
      runtime.vlog('start-call')
      t.start()
      k.start()
      k.join()
      t.join()
    elif mode == 'before-start':
      runtime.vlog('kill-call')
      t.kill()
      runtime.vlog('kill-return')
      runtime.vlog('start-call')
      t.start()
      t.join()
    else:
      def killer():
        runtime.vlog('kill-call')
        try:
          t.kill()
        except BaseException as e:  # pylint: disable=broad-except
          runtime.vlog('kill-raised', type(e).__name__)
          raise
        runtime.vlog('kill-return')
      k = threading.Thread(target=killer, name='killer')
      if mode == 'killer-first':
        k.start()
        runtime.vlog('start-call')
        t.start()
      else:
        runtime.vlog('start-call')
        t.start()
        k.start()
      k.join()
      t.join()
      try:
        runtime.yield_point('main-after')     # would surface an exception mis-delivered to the main thread
      except threads.ThreadTerminationError:
        runtime.vlog('exc-in-main')
    return {'alive': t.is_alive()}

  return fn


def execute_k(mode, choices):
  threads = thr()
  sched, value = explore.run_under_scheduler(
      scenario_k(mode), choices,
      focus_targets=[threads.KillableThread.run, threads.KillableThread.kill, threads.KillableThread._is_thread_proc_running,  # pylint: disable=protected-access
                     threads.KillableThread.async_raise],
      focus_files=('openhtf/util/threads.py',), max_steps=5000)
  ev = [e for e in sched.events]
  result = {'value': value if isinstance(value, dict) else repr(value), 'events': ev,
            'failure': repr(sched.failure) if sched.failure else None,
            'outcome_key': tuple(e[0] for e in ev)}
  return explore.Exec(list(choices), sched.points, result, sched.failure, sched.steps, len(sched.trace), sched.state_hashes)


def check_k(mode):
  def check(ex):
    out = []
    rep = {'part': 'K', 'mode': mode, 'choices': ex.choices}
    ev = [e[0] for e in ex.result['events']]
    if ex.failure is not None or not isinstance(ex.result['value'], dict):
      out.append(('K:%s:failure' % mode, 'execution failed: %s / %s; events %r' % (ex.failure, ex.result['value'], ev), rep))
      return out

    def idx(name):
      return ev.index(name) if name in ev else None

    if mode == 'double-kill':
      # a second request made while the body (which absorbed the first one) still runs raises in it again
      k2c, k2r, last, sw = idx('kill2-call'), idx('kill2-return'), idx('body2-3'), idx('swallowed')
      # (a second request made before the first one was delivered merges with it: only requests after the swallow count)
      if sw is not None and k2c is not None and k2c > sw and k2r is not None and (last is None or k2r < last) and 'exc2-in-body' not in ev:
        out.append(('K:double-kill:second-request-dropped', 'kill() returned a second time while the body was still running, '
                    'but no ThreadTerminationError was raised in it again; events %r' % (ev,), rep))
      if 'kill-raised' in ev or 'exc-in-main' in ev:
        out.append(('K:double-kill:misdelivered', 'events %r' % (ev,), rep))
      return out
    kc, kr = idx('kill-call'), idx('kill-return')
    bs, be = idx('body-start'), idx('body-end')
    sc = idx('start-call')
    exc_events = [e for e in ev if e.startswith('exc-in')]
    if 'kill-raised' in ev:
      out.append(('K:%s:kill-raised' % mode, 'kill() itself raised; events %r' % (ev,), rep))
    if 'exc-in-main' in ev:
      out.append(('K:%s:exc-in-other-thread' % mode, 'ThreadTerminationError surfaced in the main thread; events %r' % (ev,), rep))
    if kr is not None and sc is not None and kr < sc:
      # kill returned before start(): the body must never run
      if bs is not None:
        out.append(('K:%s:body-ran-after-kill-before-start' % mode, 'kill() returned before start(), yet the body ran; events %r' % (ev,), rep))
      if 'finished-end' not in ev:
        out.append(('K:%s:no-finish-handler' % mode, 'killed before start: the finish handler did not complete; events %r' % (ev,), rep))
    elif kc is not None and min([i for i in (idx('finished-start'), idx('handler-exc-start')) if i is not None] or [10**9]) < kc:
      # kill requested after the body returned (its exception / finish handlers run, or it finished): no effect
      if exc_events:
        out.append(('K:%s:kill-after-body-had-effect' % mode,
                    'kill() was called after the body returned but ThreadTerminationError was raised (%r); events %r' % (exc_events, ev), rep))
      if 'finished-end' not in ev:
        out.append(('K:%s:handler-cut-short' % mode, 'kill() after the body returned cut the finish handler short; events %r' % (ev,), rep))
    elif kr is not None and bs is not None and kr < bs and be is not None and not exc_events:
      # kill() had returned before the body began, yet the body ran from start to end and nothing was ever raised in the
      # thread: the request was lost (neither "prevented the body" nor "raised in it")
      out.append(('K:%s:kill-lost' % mode, 'kill() returned before the body began; the body ran to its end and no '
                  'ThreadTerminationError was raised in the thread; events %r' % (ev,), rep))
    elif kc is not None and bs is not None and kc > bs and (be is None or kc < be):
      # kill while the body runs: the error may only appear in that thread (body or, through the documented
      # check-then-raise window, its handlers); nothing else to demand
      pass
    return out
  return check


# ---- harness T -----------------------------------------------------------------------------------
def scenario_t(position, duration, after):
  """position: plain | main | teardown; duration: float seconds of virtual sleep or 'never';
  after: what an abandoned body does when it finally wakes (only for duration > timeout)."""
  htf.init()
  import openhtf as h  # pylint: disable=g-import-not-at-top
  from openhtf.util import threads as threads_mod  # pylint: disable=g-import-not-at-top
  TIMEOUT = 10.0

  def fn(sched):
    log = []

    topts = {'timeout_s': TIMEOUT}
    if after == 'repeat2':
      topts.update(repeat_on_timeout=True, repeat_limit=2)      # times out on every attempt: still a TIMEOUT run

    def diag_fn(phase_record):
      raise ValueError('diagnoser failed on the abandoned phase')

    from openhtf.core import diagnoses_lib  # pylint: disable=g-import-not-at-top
    import enum  # pylint: disable=g-import-not-at-top

    class DR(diagnoses_lib.DiagResultEnum):
      X = 'x'

    raising_diag = diagnoses_lib.PhaseDiagnoser(DR, name='raising_diag')(diag_fn)

    @h.PhaseOptions(**topts)
    @h.measures(h.Measurement('m'))
    def timed(test):
      t0 = time.monotonic()
      if not any(e[0] == 'timed-start' for e in log):
        log.append(('timed-start', t0))
      if duration == 'never':
        while True:
          try:
            time.sleep(1.0 if after == 'lateattach' else 50.0)
          except threads_mod.ThreadTerminationError:
            if after == 'lateattach':
              # clean-up code that survives the termination request and files a dump -- while a later phase is running
              while not any(e[0] == 'teardown' for e in log):
                time.sleep(0.5)
              test.attach('late_dump', b'state of the abandoned phase')
              log.append(('late-attach', time.monotonic()))
              return None
            if after != 'profiled':
              raise
            # (profiled config: a body stuck where the termination request cannot end it; it goes away with the run)
            if log and log[-1][0] == 'run-over':
              return None
      time.sleep(duration)
      log.append(('timed-woke', time.monotonic()))
      test.measurements.m = 1
      test.logger.info('timed phase done')
      log.append(('timed-end', time.monotonic()))
      runtime.vlog('timed-end')
      if after == 'raise':
        raise ValueError('timed body failed (in time)')
      if after == 'repeat_ok':
        # asks twice to be run again; every attempt takes `duration` < timeout, all three together take more
        log.append(('attempt', time.monotonic()))
        if sum(1 for e in log if e[0] == 'attempt') < 3:
          return h.PhaseResult.REPEAT
      return h.PhaseResult.FAIL_AND_CONTINUE if after == 'fail' else None

    if after == 'diagraise':
      # the abandoned phase also has a diagnoser that fails on its (incomplete) record: still a TIMEOUT run
      timed = h.diagnose(raising_diag)(timed)

    def other(test):
      log.append(('other', time.monotonic()))

    def td(test):
      log.append(('teardown', time.monotonic()))
      if after == 'lateattach':
        test.attach('td_own', b'teardown data')
        time.sleep(5.0)            # still the running phase when the abandoned body files its dump

    class P(h.plugs.BasePlug):

      def tearDown(self):
        log.append(('plug-teardown', time.monotonic()))

    @h.plugs.plug(update_kwargs=False, p=P)
    def first(test):
      log.append(('first', time.monotonic()))

    if position == 'monitored':
      # the timed-out body ignores the termination request, and so the monitor thread it started keeps sampling while
      # the next phase -- which declares a measurement of the same name -- runs
      from openhtf.core import monitors  # pylint: disable=g-import-not-at-top
      from openhtf.util import threads as th  # pylint: disable=g-import-not-at-top

      def mon_fn(test):
        return 7

      @h.PhaseOptions(timeout_s=TIMEOUT)
      @monitors.monitors('mon', mon_fn, poll_interval_ms=3000)
      def timed_mon(test):   # pylint: disable=unused-variable
        log.append(('timed-start', time.monotonic()))
        while True:
          try:
            time.sleep(50.0)
          except th.ThreadTerminationError:
            pass

      timed_mon.options.name = 'timed'

      @h.measures(h.Measurement('mon').with_dimensions('ms'))
      def other_mon(test):
        log.append(('other', time.monotonic()))
        time.sleep(8.0)

      nodes = [first, h.PhaseGroup(main=[timed_mon], teardown=[other_mon])]     # (teardown still runs after the timeout)
    elif position == 'nested_td':
      # the timed phase sits in the main of a group that is itself a teardown node: teardown work goes on after a timeout
      def nested_next(test):
        log.append(('nested-next', time.monotonic()))

      nodes = [first, h.PhaseGroup(main=[other], teardown=[h.PhaseGroup(main=[timed, nested_next], teardown=[td])])]
    elif position == 'plain':
      nodes = [first, timed, other]
    elif position == 'main':
      nodes = [first, h.PhaseGroup(main=[timed, other], teardown=[td])]
    else:
      nodes = [first, h.PhaseGroup(main=[other], teardown=[timed, td])]
    test = h.Test(*nodes)
    recs = []
    test.add_output_callbacks(recs.append)
    t_begin = time.monotonic()
    if after == 'profiled':
      import os, tempfile  # pylint: disable=g-import-not-at-top,multiple-imports
      prof = os.path.join(tempfile.gettempdir(), 'vf-c12-prof-%d' % os.getpid())
      try:
        ok = test.execute(profile_filename=prof)
      finally:
        log.append(('run-over', time.monotonic()))
        if os.path.exists(prof):
          os.remove(prof)
    else:
      ok = test.execute()
    t_end = time.monotonic()
    rec = recs[0]
    return {'ok': ok, 'outcome': rec.outcome.name, 'log': log, 't_begin': t_begin, 't_end': t_end,
            'phases': [(p.name, p.outcome.name, type(p.result.phase_result).__name__ if p.result.phase_result is not None else 'TIMEOUT',
                        {k: m.outcome.name for k, m in p.measurements.items()}) for p in rec.phases],
            'attachments': {p.name: sorted(p.attachments) for p in rec.phases}, 'timeout': TIMEOUT}

  return fn


_FIN = {}


def finished_lineno():
  """Line of `self._thread_finished()` in KillableThread.run, found by text anchor."""
  if 'n' not in _FIN:
    import inspect  # pylint: disable=g-import-not-at-top
    threads = thr()
    src, start = inspect.getsourcelines(threads.KillableThread.run)
    for i, line in enumerate(src):
      if 'self._thread_finished()' in line:
        _FIN['n'] = start + i
        break
    else:
      _FIN['n'] = -1
  return _FIN['n']


def execute_t(cfg, choices):
  htf.init()
  from openhtf.core import phase_executor  # pylint: disable=g-import-not-at-top
  from openhtf.util import threads  # pylint: disable=g-import-not-at-top
  position, duration, after = cfg
  sched, value = explore.run_under_scheduler(
      scenario_t(position, duration, after), choices,
      focus_targets=[phase_executor.PhaseExecutorThread.join_or_die, threads.KillableThread.run],
      # (for a body that ends by raising, the locks of the logging handlers are scheduling points too: the exception
      # is reported through the record logger while the executor may already be looking at the deadline)
      focus_files=('openhtf/util/threads.py', 'openhtf/core/phase_executor.py') + (('logging/__init__.py', 'openhtf/util/logs.py') if after == 'raise' else ()),
      max_steps=40000, horizon=1000000.0 + 5000,
      line_watch=('run', 'join_or_die'), op_watch=('(timed)',))
  # first synchronisation operation of the timed phase's thread after its body ended (there it can be held up
  # arbitrarily long by other threads, so whatever it has to hand over must have been handed over before)
  seen_end, t_sync = False, None
  for e in sched.events:
    if e[0] == 'timed-end':
      seen_end = True
    elif seen_end and e[0] == 'op' and t_sync is None and ('acquire' in e[2] or '.wait' in e[2] or e[2].startswith(('thread.join', 'sleep'))):
      t_sync = e[3]        # (only operations that can block: a release / set / notify cannot be held up)
  result_lines = [e for e in sched.events if e[0] == 'line' and e[2] == 'run' and 'timed' in e[1]]
  jod = [e for e in sched.events if e[0] == 'line' and e[2] == 'join_or_die']
  first_line = min([e[3] for e in jod] or [0])
  join_calls = [e[4] for e in jod if e[3] == first_line]     # virtual time at which each join_or_die call began
  result = {'value': value if isinstance(value, dict) else repr(value), 'failure': repr(sched.failure) if sched.failure else None}
  result['timed_run_lines'] = [(e[3], e[4]) for e in result_lines]
  result['join_calls'] = join_calls
  result['t_sync_after_body'] = t_sync
  result['timer_deviations'] = sum(1 for p in sched.points if p['kinds'][p['choice']] == 'timer' and 'run' in p['kinds'])
  if isinstance(value, dict):
    result['outcome_key'] = (value['outcome'], tuple((p[0], p[1], p[2]) for p in value['phases']))
  else:
    result['outcome_key'] = ('failure', repr(sched.failure or value)[:100])
  return explore.Exec(list(choices), sched.points, result, sched.failure, sched.steps, len(sched.trace), sched.state_hashes)


def check_t(cfg):
  position, duration, after = cfg

  def check(ex):
    out = []
    rep = {'part': 'T', 'cfg': list(cfg), 'choices': ex.choices}
    tag = '%s:%s:%s' % cfg
    v = ex.result['value']
    if ex.failure is not None or not isinstance(v, dict):
      out.append(('T:%s:no-return' % tag, 'execute() did not return normally: %s / %s' % (ex.failure, v), rep))
      return out
    log = dict((e[0], e[1]) for e in v['log'])
    T = v['timeout']
    timed = [p for p in v['phases'] if p[0] == 'timed']
    t0 = log.get('timed-start')
    ended = log.get('timed-end')
    if t0 is None or not timed:
      out.append(('T:%s:not-run' % tag, 'timed phase did not run: %r' % (v,), rep))
      return out
    if after == 'repeat_ok':
      # three attempts, each well inside its own timeout: none is a timeout (unless the explored clock deviations
      # themselves held a finished body up past its deadline)
      got = [(p[1], p[2]) for p in timed]
      if ex.result.get('timer_deviations', 0) == 0 and (got != [('SKIP', 'PhaseResult'), ('SKIP', 'PhaseResult'), ('PASS', 'PhaseResult')]
                                                          or v['outcome'] != 'PASS'):
        out.append(('T:%s:attempt-deadline' % tag, 'three attempts of %.1fs each under a %.1fs timeout: records %r outcome %s '
                    '(expected SKIP, SKIP, PASS / PASS)' % (duration, T, got, v['outcome']), rep))
      return out
    trec = timed[0]
    # the moment the phase thread is back in KillableThread.run() after _thread_proc() returned (result stored)
    fin = finished_lineno()
    t_ret = min([t for ln, t in ex.result.get('timed_run_lines', []) if ln == fin] or [None], key=lambda x: (x is None, x))
    names = [p[0] for p in v['phases']]
    jc = ex.result.get('join_calls', [])
    k = names.index('timed')
    t_wait = jc[k] if k < len(jc) else t0       # when the executor started waiting = when its deadline was fixed
    if ended is not None and t_ret is not None and t_ret - t_wait < T - 1e-6:
      # returned before its deadline: never reported as timed out, keeps its own result
      if trec[2] == 'TIMEOUT' or v['outcome'] == 'TIMEOUT':
        out.append(('T:%s:false-timeout' % tag, 'phase thread had its result %.3fs after the executor started waiting (< timeout %.1fs) '
                    'but was reported TIMEOUT: %r' % (t_ret - t_wait, T, v['phases']), rep))
      exp = {'fail': 'FAIL', 'raise': 'ERROR'}.get(after, 'PASS')
      if trec[1] != exp:
        out.append(('T:%s:own-result-lost' % tag, 'body returned in time with result for outcome %s but record says %s' % (exp, trec[1]), rep))
    t_sync = ex.result.get('t_sync_after_body')
    if ended is not None and t_sync is not None and t_sync - t_wait < T - 1e-6 and (trec[2] == 'TIMEOUT' or v['outcome'] == 'TIMEOUT'):
      out.append(('T:%s:result-withheld' % tag, 'the body ended and its thread reached a synchronisation operation %.3fs after the '
                  'executor started waiting (< timeout %.1fs) without having handed over the result: reported TIMEOUT %r'
                  % (t_sync - t_wait, T, v['phases']), rep))
    if duration == 'never' or (isinstance(duration, float) and duration > T + 4.0):
      if v['outcome'] != 'TIMEOUT':
        out.append(('T:%s:no-timeout' % tag, 'body ran past its deadline but outcome is %s' % v['outcome'], rep))
      if 'plug-teardown' not in log:
        out.append(('T:%s:no-plug-teardown' % tag, 'plug tearDown did not run after the timeout', rep))
      if position == 'nested_td' and 'nested-next' not in log:
        out.append(('T:%s:teardown-work-dropped' % tag, 'the phase after the timed-out one in a group nested in a teardown did not run', rep))
      if position in ('main', 'teardown', 'nested_td') and 'teardown' not in log:
        out.append(('T:%s:no-teardown' % tag, 'group teardown did not run after the timeout', rep))
      if position == 'main' and 'other' in log:
        out.append(('T:%s:main-continued' % tag, 'main phases continued after a timeout', rep))
      # bounded delay: the executor moves on (next logged event) no later than deadline + one join poll
      # interval (3 s), plus what the explored clock deviations themselves add (each at most SLACK)
      later = [t for name, t in v['log'] if name not in ('first', 'timed-start') and t >= t0]
      nxt = min(later) if later else v['t_end']
      attempts = 2 if after == 'repeat2' else 1
      allowance = attempts * (T + 3.0) + runtime.SLACK * ex.result.get('timer_deviations', 0) + 1e-6
      if nxt - t0 > allowance:
        out.append(('T:%s:late' % tag, 'executor proceeded %.1fs after the phase started (timeout %.1fs, allowance %.1fs)'
                    % (nxt - t0, T, allowance), rep))
      for pname, atts in v.get('attachments', {}).items():
        if pname != 'timed' and 'late_dump' in atts:
          out.append(('T:%s:zombie-attribution' % tag, 'the attachment filed by the abandoned body landed in the record of phase %s: %r'
                      % (pname, atts), rep))
      # nothing the abandoned body does later is attributed to another phase
      for p in v['phases']:
        if p[0] != 'timed' and (p[3].get('m') not in (None, 'UNSET') or p[3].get('mon') not in (None, 'UNSET')):
          out.append(('T:%s:zombie-attribution' % tag, 'phase %s shows measurements made on behalf of the abandoned body: %r' % (p[0], p[3]), rep))
    return out
  return check


K_MODES = ['before-start', 'victim-first', 'killer-first', 'double-kill']


def t_configs(tier):
  cfgs = []
  for pos in ('plain', 'main', 'teardown'):
    cfgs += [(pos, 9.5, 'none'), (pos, 'never', 'none')]
  cfgs += [('plain', 9.999, 'fail'), ('plain', 25.0, 'measure'), ('main', 25.0, 'measure'), ('plain', 9.5, 'raise'), ('main', 9.5, 'raise'),
           ('monitored', 'never', 'none'), ('main', 'never', 'repeat2'), ('plain', 6.0, 'repeat_ok'),
           ('main', 'never', 'diagraise'), ('main', 'never', 'profiled'), ('nested_td', 'never', 'none'), ('main', 'never', 'lateattach')]
  if tier == 'thorough':
    cfgs += [('plain', 10.5, 'measure'), ('teardown', 25.0, 'fail'), ('main', 9.999, 'measure')]
  return cfgs


def run(tier):
  rep = common.Report(PID, tier, 'model_checking')
  kb = 3 if tier == 'quick' else 5
  explore.set_plan(common.thorough_budget(tier, 900.0), len(K_MODES) + len(t_configs(tier)) + 1)
  for mode in K_MODES:
    r = explore.explore('K:' + mode, lambda ch, mode=mode: execute_k(mode, ch), check_k(mode), kb, cap=400000)
    rep.merge_violations(r['violations'])
    rep.add_part('K %s' % mode, states=max(1, r['states']), transitions=r['steps'], traces_validated_against_impl=r['executions'],
                 deviation_bound=kb, distinct_outcomes=len(r['outcomes']), exhaustive=not r['capped'],
                 decision_points_default=r['default_points'], samples=r['samples'] or [{'choices': []}])
  # a termination request made through the phase executor (PhaseExecutor.stop(), as an abort does) before the phase thread
  # was started prevents the body: C04's scenario with phase functions that take no arguments, judged for that rule only
  from vf.harness import c04  # pylint: disable=g-import-not-at-top
  acfg = ('plain3_noarg', 1, 'thread', 'wide')

  def a_check(ex):
    return [('A:%s' % k, '%s (events %r)' % (w, [e[:3] for e in ex.result['events'] if e[0] != 'line'][:30]),
             {'part': 'A', 'cfg': list(acfg), 'choices': ex.choices})
            for k, w in c04.analyse(acfg, ex) if k.startswith(('started-after-abort', 'started-after-kill-request'))]

  r = explore.explore('A:stop-before-start', lambda ch: c04.execute(acfg, ch), a_check, 0, cap=60000)
  rep.merge_violations(r['violations'])
  rep.add_part('A stop requested around the start of a phase thread', states=max(1, r['states']), transitions=r['steps'],
               traces_validated_against_impl=r['executions'], deviation_bound=0, distinct_outcomes=len(r['outcomes']),
               exhaustive=not r['capped'], decision_points_default=r['default_points'], samples=r['samples'] or [{'choices': []}])
  tb = 2 if tier == 'quick' else 3
  for ci, cfg in enumerate(t_configs(tier)):
    tb = (2 if ci in (0, 1, 8) else 1) if tier == 'quick' else 3
    r = explore.explore('T:%r' % (cfg,), lambda ch, cfg=cfg: execute_t(cfg, ch), check_t(cfg), tb,
                        cap=60000 if tier == 'quick' else 400000)
    rep.merge_violations(r['violations'])
    rep.add_part('T %s duration=%s after=%s' % cfg, states=max(1, r['states']), transitions=r['steps'],
                 traces_validated_against_impl=r['executions'], deviation_bound=tb, distinct_outcomes=len(r['outcomes']),
                 exhaustive=not r['capped'], decision_points_default=r['default_points'], samples=r['samples'] or [{'choices': []}])
  rep.assumptions = [
      'asynchronous exceptions (PyThreadState_SetAsyncExc) are modelled: delivered at the target thread\'s next scheduling point '
      '(source line of a focus function, harness yield point, or return from sleep), never while it is blocked',
      'virtual time: it advances when every thread is blocked, or as an explored deviation (a timer within 5 virtual seconds fires early)',
      'the check-then-raise window inside kill() is classified by where the kill() call began, as the statement allows',
  ]
  return rep.finish(rule='stateless exploration under the controlled scheduler with virtual time; see parts for bounds')


def replay(art):
  r = art['replay']
  if r['part'] == 'A':
    from vf.harness import c04  # pylint: disable=g-import-not-at-top
    acfg = tuple(r['cfg'])
    ex = c04.execute(acfg, r['choices'])
    bad = [(k, w) for k, w in c04.analyse(acfg, ex) if k.startswith(('started-after-abort', 'started-after-kill-request'))]
    print('events', [e[:3] for e in ex.result['events'] if e[0] != 'line'])
  elif r['part'] == 'K':
    ex = execute_k(r['mode'], r['choices'])
    bad = check_k(r['mode'])(ex)
    print('events', [e[0] for e in ex.result['events']])
  else:
    cfg = tuple(r['cfg'])
    ex = execute_t(cfg, r['choices'])
    bad = check_t(cfg)(ex)
    print('result', ex.result['value'])
  for b in bad:
    print('VIOLATED', b[0], b[1])
  return 1 if bad else 0
