"""C11 runs are isolated: descriptors are never mutated, derived phases are copies.

histories  all sequences up to the bound over derive / decorate / nest / mutate-the-
           derived-object / execute operations on shared phase objects; after every
           operation a deep structural snapshot of every object that is not the
           operation's own result (or mutation target) must be unchanged; repeated
           executions produce equal records and start from pristine measurements,
           state dict and diagnoses.
schedules  two Tests built from the same phase objects executing concurrently under
           the controlled scheduler; each record must equal the record the same test
           produces alone.
"""
import itertools
import threading

from vf import common, htf, progs
from vf.sched import explore, runtime

PID = 'C11'


def lib():
  L = progs.lib()
  from openhtf.core import base_plugs, phase_branches, phase_collections  # pylint: disable=g-import-not-at-top
  from openhtf.util import validators  # pylint: disable=g-import-not-at-top
  return L, base_plugs, phase_branches, phase_collections, validators


_K = {}
CTOR_FAIL = [False]


def kit():
  """Plug classes and diagnosers shared by all histories (created once per process)."""
  if _K:
    return _K
  L, bp, pb, pc, v = lib()
  h, dl, R = L['htf'], L['dl'], L['R']

  class RealPlug(bp.BasePlug):

    def __init__(self):
      if CTOR_FAIL[0]:
        raise OSError('plug constructor failed (injected)')

  class OtherPlug(bp.BasePlug):
    pass

  class TrigPlug(bp.BasePlug):
    pass

  def d1(rec):
    return dl.Diagnosis(R.A, 'first')

  def d2(rec):
    return None

  _K.update(RealPlug=RealPlug, OtherPlug=OtherPlug, TrigPlug=TrigPlug, diag1=dl.PhaseDiagnoser(R, name='d1')(d1),
            diag2=dl.PhaseDiagnoser(R, name='d2')(d2))
  return _K


INVOCATION = [0]


def is_small(value):
  return value < 100


def is_tiny(value):
  return value < 1


def make_base():
  """Fresh base objects X (rich phase) and Y (plain phase)."""
  L, bp, pb, pc, v = lib()
  h, R = L['htf'], L['R']
  K = kit()

  def x_body(test, p, a=0):
    test.measurements.m = 3
    test.measurements.n = 4
    INVOCATION[0] += 1
    test.measurements.dm[INVOCATION[0]] = 7          # one row per invocation, at a coordinate no other invocation uses
    test.state['seen'] = test.state.get('seen', 0) + 1
    test.logger.info('x runs a=%s state=%s', a, test.state['seen'])
    test.attach('att', b'x' * (a + 1))

  def y_body(test):
    test.logger.info('y runs; state=%r', dict(test.state))
    # a phase taking notes in the record's (nested) metadata: must stay private to this run
    test.test_record.metadata['notes']['seen'].append('y')

  def z_body(test, zp):
    test.logger.info('z runs with plug %s', type(zp).__name__)

  x = h.PhaseOptions(name='x-{a}', timeout_s=30)(x_body)
  x = h.measures(h.Measurement('m').in_range(0, 10).validate_on({R.B: v.in_range(0, 1)}),
                 h.Measurement('n').with_validator(is_small),       # (a validator without with_args)
                 h.Measurement('dm').with_dimensions('i'))(x)
  x = h.diagnose(K['diag1'])(x)
  x = h.plugs.plug(p=K['RealPlug'].placeholder)(x)
  y = h.PhaseOptions(name='y')(y_body)
  z = h.plugs.plug(zp=K['OtherPlug'])(h.PhaseOptions(name='z')(z_body))
  return {'X': x, 'Y': y, 'Z': z}


# ---- structural snapshot --------------------------------------------------------------------------
def snap(o):
  L, bp, pb, pc, v = lib()
  h = L['htf']
  from openhtf.core import measurements, phase_descriptor, phase_group  # pylint: disable=g-import-not-at-top
  if isinstance(o, phase_descriptor.PhaseDescriptor):
    op = o.options
    return ('phase', id(o.func), o.name,
            (op.name if isinstance(op.name, str) else repr(op.name), op.timeout_s, id(op.run_if) if op.run_if else None, op.requires_state,
             op.force_repeat, op.repeat_on_measurement_fail, op.repeat_on_timeout, op.repeat_limit, op.stop_on_measurement_fail),
            tuple((p.name, getattr(p.cls, '__name__', repr(p.cls)), p.update_kwargs) for p in o.plugs),
            tuple(snap(m) for m in o.measurements),
            tuple(id(d) for d in o.diagnosers),
            tuple(sorted((k, repr(val)) for k, val in o.extra_kwargs.items())))
  if isinstance(o, measurements.Measurement):
    mv = o.measured_value
    return ('meas', o.name, tuple(str(x) for x in o.validators), tuple((str(c.result), str(c.validator)) for c in o.conditional_validators),
            repr(o.dimensions), repr(o.units), o.docstring, o.outcome.name, o.marginal, bool(mv.is_value_set), o.set_time_millis,
            len(mv.value_dict) if hasattr(mv, 'value_dict') else None)
  if isinstance(o, pb.BranchSequence):
    return ('branch', o.name, repr(o.diag_condition), tuple(snap(n) for n in o.nodes))
  if isinstance(o, pc.Subtest):
    return ('subtest', o.name, tuple(snap(n) for n in o.nodes))
  if isinstance(o, pc.PhaseSequence):
    return ('seq', o.name, tuple(snap(n) for n in o.nodes))
  if isinstance(o, phase_group.PhaseGroup):
    return ('group', o.name, snap(o.setup) if o.setup else None, snap(o.main) if o.main else None,
            snap(o.teardown) if o.teardown else None)
  if isinstance(o, pb.Checkpoint):
    return ('ckpt', o.name)
  return ('other', repr(o))


def first_leaf(o):
  from openhtf.core import phase_descriptor, phase_group  # pylint: disable=g-import-not-at-top
  if isinstance(o, phase_descriptor.PhaseDescriptor):
    return o
  if isinstance(o, phase_group.PhaseGroup):
    for seq in (o.main, o.setup, o.teardown):
      if seq:
        r = first_leaf(seq)
        if r is not None:
          return r
    return None
  for n in getattr(o, 'nodes', ()):
    r = first_leaf(n)
    if r is not None:
      return r
  return None


# ---- operations ----------------------------------------------------------------------------------------
def is_phase(o):
  from openhtf.core import phase_descriptor  # pylint: disable=g-import-not-at-top
  return isinstance(o, phase_descriptor.PhaseDescriptor)


def ops():
  """name -> (kind, fn(pool, target) -> new object or None). kind: derive (target unchanged), mutate (target changes)."""
  L, bp, pb, pc, v = lib()
  h, R = L['htf'], L['R']
  K = kit()
  cond = pb.DiagnosisCondition.on_any(R.A)
  derive = {
      'with_args': lambda t: t.with_args(a=1),
      'with_plugs': lambda t: t.with_plugs(p=K['RealPlug']),
      'options': lambda t: h.PhaseOptions(timeout_s=5, repeat_limit=2)(t) if is_phase(t) else None,
      'measures': lambda t: h.measures(h.Measurement('m2'))(t) if is_phase(t) else None,
      'diagnose': lambda t: h.diagnose(K['diag2'])(t) if is_phase(t) else None,
      'plug': lambda t: h.plugs.plug(q=K['OtherPlug'], update_kwargs=False)(t) if is_phase(t) else None,
      'sequence': lambda t: pc.PhaseSequence(t, name='q'),
      'group_main': lambda t: h.PhaseGroup(main=[t], name='g'),
      'group_of_seq': lambda t: h.PhaseGroup(main=t, name='g2') if isinstance(t, pc.PhaseSequence) and type(t) is pc.PhaseSequence else None,
      'group_teardown': lambda t: h.PhaseGroup(setup=[t], teardown=[t], name='g3'),
      'subtest': lambda t: pc.Subtest('st', t),
      'branch': lambda t: pb.BranchSequence(cond, t, name='br'),
      'copy': lambda t: t.copy(),
  }

  def mut(fn):
    def apply(t):
      leaf = first_leaf(t)
      if leaf is None:
        return None
      fn(leaf)
      return t
    return apply

  mutate = {
      'set_timeout': mut(lambda p: setattr(p.options, 'timeout_s', 99)),
      'set_run_if': mut(lambda p: setattr(p.options, 'run_if', lambda: False)),
      'set_name': mut(lambda p: setattr(p.options, 'name', 'renamed')),
      'append_measurement': mut(lambda p: p.measurements.append(h.Measurement('zz'))),
      'set_kwarg': mut(lambda p: p.extra_kwargs.__setitem__('a', 5)),
      'clear_diagnosers': mut(lambda p: p.diagnosers.clear()),
      'pop_plug': mut(lambda p: p.plugs.pop() if p.plugs else None),
      'update_options': mut(lambda p: p.options.update(force_repeat=True, repeat_limit=1)),
      'add_validator': mut(lambda p: [m.with_validator(is_tiny) for m in p.measurements] or None),
  }
  return derive, mutate


def runnable(t):
  """A version of t that can be executed (placeholder substituted); never touches t itself."""
  K = kit()
  return t.with_plugs(p=K['RealPlug'])


DIAG_B = [False]
MUTATED = []     # differences between the Test's declared node tree / metadata before and after an execution


def build_test(t):
  """A Test around a runnable version of t, preceded by a phase whose diagnoser issues result B iff DIAG_B[0] (B switches
  on X's conditional validator).  The SAME Test object is executed for every run of t in a history: a station executes
  one Test again and again, and what a run leaves behind in it is what the property is about."""
  L = progs.lib()
  h, dl, R = L['htf'], L['dl'], L['R']

  def pre_diag(phase_record):
    return dl.Diagnosis(R.B, 'issued in this run') if DIAG_B[0] else None

  def pre_body(test):
    pass

  pre_body.__name__ = 'pre'
  pre = h.diagnose(dl.PhaseDiagnoser(R, name='pre_diag')(pre_diag))(h.PhaseOptions(name='pre')(pre_body))
  test = h.Test(pre, runnable(t), notes={'seen': []})       # (declared metadata with a mutable nested value)
  cap = htf.Capture()
  test.add_output_callbacks(cap)
  return test, cap


def decl_state(test):
  """What the Test was declared with, as far as a run could reach it."""
  return (snap(test.descriptor.phase_sequence), repr(sorted(test.descriptor.metadata.get('notes', {}).items())),
          tuple(sorted(getattr(c, '__name__', repr(c)) for c in test.descriptor.plug_types)))


def execute(t, with_b=False, cache=None, trigger=False):
  key = snap(t)
  if cache is None or key not in cache:
    entry = build_test(t)
    if cache is not None:
      cache[key] = entry
  else:
    entry = cache[key]
  test, cap = entry
  del cap.records[:]
  DIAG_B[0] = bool(with_b)
  before = decl_state(test)
  test_start = None
  if trigger:
    # a start trigger that needs a plug none of the test's own phases declares
    L = progs.lib()

    def trig(test_api, tp):
      test_api.dut_id = 'dut-from-trigger'

    trig.__name__ = 'trig'
    test_start = L['htf'].plugs.plug(tp=kit()['TrigPlug'])(L['htf'].PhaseOptions(name='trig')(trig))
  try:
    res = test.execute(test_start=test_start)
  except BaseException as e:  # pylint: disable=broad-except
    res = e
  finally:
    DIAG_B[0] = False
  after = decl_state(test)
  if before != after:
    MUTATED.append(first_diff(before, after))
  recs = list(cap.records)
  if not recs:
    return ('no-record', type(res).__name__)
  rec = recs[0]
  return (rec.outcome.name,
          tuple((p.name, p.outcome.name, tuple(sorted((k, m.outcome.name, (('rows=%d' % len(m.measured_value.value)) if m.dimensions else repr(m.measured_value.value))
                                       if m.measured_value.is_value_set else None) for k, m in p.measurements.items())),
                 tuple(sorted((k, a.sha1) for k, a in p.attachments.items())), tuple(r.name for r in p.diagnosis_results))
                for p in rec.phases),
          tuple(r.message for r in rec.log_records if ' runs' in r.message),
          tuple(d.result.name for d in rec.diagnoses),
          repr(rec.metadata.get('notes')), repr(test.descriptor.metadata.get('notes')))


def run_history(hist):
  """hist: list of (op name, source index in pool).  Returns list of (kind, what)."""
  derive, mutate = ops()
  base = make_base()
  pool = [('X', base['X']), ('Y', base['Y']), ('Z', base['Z'])]
  bad = []
  exec_results = {}
  tests = {}
  for step, (name, src) in enumerate(hist):
    if src >= len(pool):
      return None      # not applicable
    label, target = pool[src]
    before = [snap(o) for _, o in pool]
    try:
      if name in derive:
        new = derive[name](target)
        if new is None:
          return None
        changed_ok = set()
        if new is not target:
          pool.append(('%s(%s)' % (name, label), new))
      elif name in mutate:
        if src < 3:
          return None    # only derived objects are modified; the originals are what must stay intact
        r = mutate[name](target)
        if r is None:
          return None
        changed_ok = {src}
      elif name == 'execute_ctorfail':
        # a run in which a plug constructor fails must not change what the next run of the same object produces
        changed_ok = set()
        r1 = execute(target, False, tests)
        CTOR_FAIL[0] = True
        try:
          rf = execute(target, False, tests)
        finally:
          CTOR_FAIL[0] = False
        r2 = execute(target, False, tests)
        if r1 != r2:
          bad.append(('run-depends-on-earlier-run', 'executing %s after a run whose plug constructor failed gave %r, before it %r'
                      % (label, r2, r1)))
      elif name == 'execute_trigger':
        changed_ok = set()
        execute(target, False, tests, trigger=True)
      elif name in ('execute', 'execute_B'):
        r1 = execute(target, name == 'execute_B', tests)
        r2 = execute(target, name == 'execute_B', tests)
        changed_ok = set()
        if r1 != r2:
          bad.append(('rerun-differs', 'two consecutive executions of %s gave different records: %r vs %r' % (label, r1, r2)))
        if name == 'execute':
          # the same object run in a Test that has never been executed before: the well-used Test must agree with it
          fresh = execute(target, False, None)
          if fresh != r1:
            bad.append(('run-depends-on-earlier-run', 'executing %s in the Test that earlier steps of the history already '
                        'executed gave %r, in a fresh Test %r' % (label, r1, fresh)))
        prev = exec_results.get((src, name))
        exec_results[(src, name)] = r1
        plain_before = exec_results.get((src, 'execute'))
        if name == 'execute' and plain_before is not None and plain_before != r1 and not any(
            n in mutate for n, s_ in hist[:step] if s_ == src):
          bad.append(('run-depends-on-earlier-run', 'executing %s again after other runs gave %r, first time %r' % (label, r1, plain_before)))
      else:
        raise AssertionError(name)
    except Exception as e:  # pylint: disable=broad-except
      # an operation that the library rejects is simply not part of the history space
      return None
    if MUTATED:
      bad.append(('execution-mutated-test', 'step %d %s on %s: executing changed the Test it was declared with: %s'
                  % (step, name, label, MUTATED[0])))
      del MUTATED[:]
    after = [snap(o) for _, o in pool[:len(before)]]
    for i, (b, a) in enumerate(zip(before, after)):
      if i in changed_ok:
        continue
      if b != a:
        diff = first_diff(b, a)
        bad.append(('aliasing:%s->%s' % (name, pool[i][0].split('(')[0]),
                    'step %d %s on %s changed %s: %s' % (step, name, label, pool[i][0], diff)))
  return bad


def first_diff(a, b, path=''):
  if isinstance(a, tuple) and isinstance(b, tuple) and len(a) == len(b):
    for i, (x, y) in enumerate(zip(a, b)):
      if x != y:
        return first_diff(x, y, '%s/%d' % (path, i))
  return '%s: %r -> %r' % (path, a, b)


def histories(tier):
  derive, mutate = ops()
  names = list(derive) + list(mutate) + ['execute', 'execute_B', 'execute_ctorfail', 'execute_trigger']
  depth = 3 if tier == 'quick' else 4
  for d in range(1, depth + 1):
    for combo in itertools.product(names, repeat=d):
      if tier == 'quick' and d == 3 and not (combo[0] in derive and combo[2] not in derive):
        continue      # quick: 3-step histories are derive, anything, then a mutation / execution (the observing step)
      if d == 4 and not (combo[0] in D4_FIRST and combo[1] in derive and combo[3] not in derive):
        continue      # 4-step histories (thorough): nest / re-option, derive from the result, anything, then the observing step
      # sources: each op applies to X (0) first, later ops apply to the most recently derived object or to X/Y
      for srcs in itertools.product(range(0, d + 3), repeat=d):
        if srcs[0] not in (0, 1, 2):
          continue
        if any(s >= 3 + i for i, s in enumerate(srcs)):
          continue
        if d == 4 and not (srcs[1] == 3 and srcs[2] in (3, 4)):
          continue      # ... a chain: step 1 works on what step 0 derived, step 2 on one of the two derived objects
        yield list(zip(combo, srcs))


NESTERS = ['sequence', 'group_main', 'group_teardown', 'subtest', 'branch', 'copy']
D4_FIRST = NESTERS + ['with_args', 'options']


def chain_histories():
  """Three nestings on top of each other (X -> a -> b -> c), then a modification of the innermost phase of c, or an
  execution: nesting two levels deep must still copy."""
  derive, mutate = ops()
  for a, b, c in itertools.product(NESTERS, repeat=3):
    for last in list(mutate) + ['execute']:
      yield [(a, 0), (b, 3), (c, 4), (last, 5)]


def _work(item):
  tier, start, step = item
  n, viols, outs = 0, [], set()
  sample = None
  for i, hist in enumerate(itertools.chain(histories(tier), chain_histories())):
    if i % step != start:
      continue
    # prune: mutations/executions only make sense once something was derived; keep history space small
    bad = run_history(hist)
    if bad is None:
      continue
    n += 1
    outs.add(tuple(name for name, _ in hist))
    if sample is None and len(hist) == 3:
      sample = {'history': hist}
    for kind, what in bad:
      viols.append(('histories:%s' % kind, 'history %r: %s' % (hist, what), {'part': 'histories', 'hist': hist}))
  return n, viols, len(outs), sample


# ---- schedules -------------------------------------------------------------------------------------------
def scenario_two(shared):
  """Two Tests from the same phase objects; returns fn(sched) -> {tag: record summary}."""
  htf.init()
  import openhtf as h  # pylint: disable=g-import-not-at-top
  L = progs.lib()
  dl, R = L['dl'], L['R']

  def build():
    @h.measures(h.Measurement('m').in_range(0, 100), h.Measurement('dim').with_dimensions('x'))
    def p1(test):
      tag = test.test_record.metadata.get('tag')
      runtime.yield_point('p1-a')
      test.measurements.m = 1 if tag == 'A' else 2
      test.measurements.dim[tag] = tag
      runtime.yield_point('p1-b')
      test.state['who'] = tag
      test.attach('note', tag.encode())
      test.logger.info('hello from %s', tag)

    def diag(phase_record):
      return None

    def p2(test):
      tag = test.test_record.metadata.get('tag')
      runtime.yield_point('p2-a')
      test.logger.info('state says %s', test.state.get('who'))
      m = test.get_measurement('m')
      test.logger.info('m is %s', m.value if m else None)
      a = test.get_attachment('note')
      test.logger.info('note is %s', a.data if a else None)

    return [p1, p2]

  def summary(rec):
    return (rec.outcome.name,
            tuple((p.name, p.outcome.name, tuple(sorted((k, m.outcome.name, repr(m.measured_value.value) if m.measured_value.is_value_set else None)
                                                        for k, m in p.measurements.items())),
                   tuple(sorted((k, a.data) for k, a in p.attachments.items()))) for p in rec.phases),
            tuple(r.message for r in rec.log_records if r.message.startswith(('hello', 'state says', 'm is', 'note is'))))

  def fn(sched):
    phases = build()
    out = {}

    def run(tag):
      t = h.Test(*phases, tag=tag)
      cap = htf.Capture()
      t.add_output_callbacks(cap)
      t.execute()
      out[tag] = summary(cap.records[0])

    if shared == 'alone':
      run('A')
      run('B')
      return out
    ths = [threading.Thread(target=run, args=(tag,), name='run' + tag) for tag in ('A', 'B')]
    for t in ths:
      t.start()
    for t in ths:
      t.join()
    return out

  return fn


_ALONE = {}


def execute_s(choices):
  htf.init()
  from openhtf.core import test_state  # pylint: disable=g-import-not-at-top
  sched, value = explore.run_under_scheduler(
      scenario_two('concurrent'), choices, focus_targets=[test_state.PhaseState.from_descriptor, test_state.TestState.running_phase_context],
      focus_files=('openhtf/core/test_state.py',), max_steps=80000)
  result = {'value': value if isinstance(value, dict) else repr(value), 'failure': repr(sched.failure) if sched.failure else None,
            'outcome_key': repr(value)[:300]}
  return explore.Exec(list(choices), sched.points, result, sched.failure, sched.steps, len(sched.trace), sched.state_hashes)


def alone():
  if 'v' not in _ALONE:
    sched, value = explore.run_under_scheduler(scenario_two('alone'), [], max_steps=80000)
    _ALONE['v'] = value
  return _ALONE['v']


def check_s(ex):
  rep = {'part': 'schedules', 'choices': ex.choices}
  v = ex.result['value']
  if ex.failure is not None or not isinstance(v, dict):
    return [('schedules:failure', 'two concurrent tests did not finish: %s / %s' % (ex.failure, v), rep)]
  ref = alone()
  out = []
  for tag in ('A', 'B'):
    if v.get(tag) != ref.get(tag):
      out.append(('schedules:record-differs', 'test %s run concurrently produced %r, run alone %r' % (tag, v.get(tag), ref.get(tag)), rep))
  return out


def leaf_phases(o):
  from openhtf.core import phase_descriptor, phase_group  # pylint: disable=g-import-not-at-top
  if isinstance(o, phase_descriptor.PhaseDescriptor):
    return [o]
  out = []
  if isinstance(o, phase_group.PhaseGroup):
    for seq in (o.setup, o.main, o.teardown):
      if seq:
        out += leaf_phases(seq)
    return out
  for n in getattr(o, 'nodes', ()):
    out += leaf_phases(n)
  return out


def special_cases():
  """Corners outside the general history alphabet.  Returns [(kind, what, replay)]."""
  L, bp, pb, pc, v = lib()
  h, R = L['htf'], L['R']
  bad = []
  # (a) with_args whose arguments mean nothing to the phase (or no arguments at all) still yields a copy -- also for a plain
  #     phase without a name of its own and without measurements, alone and as a member of a sequence
  for args in ({}, {'zzz': 1}, {'port': 1}):
    base = make_base()

    def w_body(test):
      pass

    base['W'] = h.PhaseDescriptor.wrap_or_copy(w_body)
    for label, p in sorted(base.items()):
      before = snap(p)
      d = p.with_args(**args)
      if d is p:
        bad.append(('special:with_args-is-source', '%s.with_args(**%r) returned the phase itself' % (label, args)))
        continue
      d.options.timeout_s = 7
      d.options.run_if = lambda: False
      if snap(p) != before:
        bad.append(('special:with_args-aliasing', 'modifying %s.with_args(**%r) changed %s: %s' % (label, args, label, first_diff(before, snap(p)))))
    seq = pc.PhaseSequence(base['W'], base['Y'], base['X'], name='q')
    s1, s2 = seq.with_args(**args), seq.with_args(port=2)
    ids = [[id(x) for x in leaf_phases(o)] for o in (seq, s1, s2)]
    flat = [i for row in ids for i in row]
    if len(set(flat)) != len(flat):
      bad.append(('special:with_args-shared-leaf', 'a sequence and its with_args(**%r) / with_args(port=2) derivations share phase objects' % (args,)))
  # (b) phases that are recorded as skipped (inside a subtest, after FAIL_SUBTEST): the record must not be the declaration
  base = make_base()

  def fs_body(test):
    return h.PhaseResult.FAIL_SUBTEST

  fs = h.PhaseOptions(name='fs')(fs_body)
  test = h.Test(pc.Subtest('st', fs, runnable(base['X']), base['Y']), notes={'seen': []})
  cap = htf.Capture()
  test.add_output_callbacks(cap)
  declared = {id(m) for p in leaf_phases(test.descriptor.phase_sequence) for m in p.measurements}
  before = decl_state(test)
  seen = []
  summaries = []
  for run in (1, 2):
    del cap.records[:]
    test.execute()
    rec = cap.records[0]
    ids = {id(m) for p in rec.phases for m in p.measurements.values()}
    if ids & declared:
      bad.append(('special:skipped-record-aliases-declaration', 'run %d: the record of a skipped phase holds the declared Measurement objects' % run))
    if any(ids & s_ for s_ in seen):
      bad.append(('special:skipped-records-alias', 'run %d: the records of two runs share Measurement objects' % run))
    seen.append(ids)
    summaries.append(tuple((p.name, p.outcome.name, tuple(sorted((k, m.outcome.name) for k, m in p.measurements.items()))) for p in rec.phases))
    # rendering the finished record must not reach the declaration either
    rec.as_base_types()
    if decl_state(test) != before:
      bad.append(('special:skipped-run-mutated-test', 'run %d changed the declared Test: %s' % (run, first_diff(before, decl_state(test)))))
      break
  if len(summaries) == 2 and summaries[0] != summaries[1]:
    bad.append(('special:skipped-rerun-differs', 'two runs gave %r and %r' % (summaries[0], summaries[1])))
  # a later change of the declaration must not rewrite a finished record
  if cap.records:
    rec = cap.records[0]
    snap_before = repr([sorted((k, [str(x) for x in m.validators]) for k, m in p.measurements.items()) for p in rec.phases])
    for p in leaf_phases(test.descriptor.phase_sequence):
      for m in p.measurements:
        m.with_validator(is_tiny)
    snap_after = repr([sorted((k, [str(x) for x in m.validators]) for k, m in p.measurements.items()) for p in rec.phases])
    if snap_before != snap_after:
      bad.append(('special:record-follows-declaration', 'adding a validator to the declared measurements changed the record of a finished run'))
  # (c) a run under a test-wide option (stop_on_first_failure) leaves the declared phases' own options alone, and the next
  #     run without the option is the run a fresh Test gives
  base = make_base()

  def f_body(test):
    test.measurements.fm = 99          # fails its validator: with the option on, the run stops here

  fphase = h.measures(h.Measurement('fm').in_range(0, 10))(h.PhaseOptions(name='f')(f_body))

  def mk():
    t = h.Test(fphase, base['Y'], notes={'seen': []})
    c = htf.Capture()
    t.add_output_callbacks(c)
    return t, c

  def summarize(rec):
    return (rec.outcome.name, tuple((p.name, p.outcome.name, progs.result_kind(p.result)) for p in rec.phases))

  t1, c1 = mk()
  before = decl_state(t1)
  t1.configure(stop_on_first_failure=True)
  t1.execute()
  with_opt = summarize(c1.records[0])
  if decl_state(t1) != before:
    bad.append(('special:option-run-mutated-test', 'a run with stop_on_first_failure changed the declared phases: %s'
                % first_diff(before, decl_state(t1))))
  t1.configure(stop_on_first_failure=False)
  del c1.records[:]
  t1.execute()
  after_opt = summarize(c1.records[0])
  t2, c2 = mk()
  t2.execute()
  fresh = summarize(c2.records[0])
  if after_opt != fresh:
    bad.append(('special:option-leaks-into-next-run', 'run without stop_on_first_failure after a run with it: %r; a fresh Test gives %r '
                '(the run with the option: %r)' % (after_opt, fresh, with_opt)))
  # (d) one Test executed several times, each time with a different start callable: each record carries that run's id
  base = make_base()
  t3 = h.Test(base['Y'], notes={'seen': []})
  c3 = htf.Capture()
  t3.add_output_callbacks(c3)
  for i in (1, 2, 3):
    del c3.records[:]
    t3.execute(test_start=(lambda i=i: 'SN-%04d' % i))
    got = c3.records[0].dut_id if c3.records else None
    if got != 'SN-%04d' % i:
      bad.append(('special:stale-test-start', 'run %d was started with a callable returning SN-%04d, its record says dut_id %r' % (i, i, got)))
      break
  # (e) groups made by one with_context / with_setup / with_teardown factory own their setup and teardown phases
  from openhtf.core import phase_group as pg  # pylint: disable=g-import-not-at-top
  base = make_base()

  def su_body(test):
    pass

  def td_body(test):
    pass

  su = h.PhaseOptions(name='su')(su_body)
  td = h.measures(h.Measurement('tdm'))(h.PhaseOptions(name='td')(td_body))
  for fname, factory in (('with_context', pg.PhaseGroup.with_context([su], [td])), ('with_setup', pg.PhaseGroup.with_setup(su)),
                         ('with_teardown', pg.PhaseGroup.with_teardown(td))):
    g1, g2 = factory(base['Y']), factory(base['Z'])
    ids1 = {id(x) for x in leaf_phases(g1)}
    ids2 = {id(x) for x in leaf_phases(g2)}
    if ids1 & ids2 or (ids1 | ids2) & {id(su), id(td)}:
      bad.append(('special:factory-shares-phases', 'two groups made by one PhaseGroup.%s factory share phase objects (with each other or '
                  'with the phases the factory was given)' % fname))
      continue
    snap2, snap_src = snap(g2), (snap(su), snap(td))
    for p_ in leaf_phases(g1):
      p_.options.timeout_s = 1234
      for m in p_.measurements:
        m.with_validator(is_tiny)
    if snap(g2) != snap2 or (snap(su), snap(td)) != snap_src:
      bad.append(('special:factory-aliasing', 'modifying the phases of one group made by PhaseGroup.%s changed a sibling group or the '
                  'phases the factory was given' % fname))
  return [(k, w, {'part': 'special'}) for k, w in bad]


def run(tier):
  rep = common.Report(PID, tier, 'model_checking')
  progs.lib()
  sp = special_cases()
  rep.merge_violations(sp)
  rep.add_part('special derivations and skipped phases', states=15, transitions=15, traces_validated_against_impl=15, evaluations=15,
               distinct_nontrivial=15, exhaustive=True, samples=[{'cases': 'with_args with irrelevant / no arguments on 4 base phases and a '
                                                                  'sequence; a Test whose phases are recorded as skipped, run twice'}])
  step = common.NCPU * 4
  res = common.pmap(_work, common.rotate([(tier, s, step) for s in range(step)]), chunksize=1)
  n = sum(r[0] for r in res)
  for r in res:
    rep.merge_violations(r[1])
  rep.add_part('histories', states=n, transitions=n, traces_validated_against_impl=n, evaluations=n,
               distinct_nontrivial=len(set()) + sum(r[2] for r in res), exhaustive=True,
               samples=[r[3] for r in res if r[3]][:2] or [{}])
  alone()
  explore.set_plan(common.thorough_budget(tier), 1)
  bound = 1 if tier == 'quick' else 2
  r = explore.explore('C11:S', execute_s, check_s, bound, cap=40000 if tier == 'quick' else 400000, free_forced=False)
  rep.merge_violations(r['violations'])
  rep.add_part('schedules two concurrent tests sharing phase objects', states=max(1, r['states']), transitions=r['steps'],
               traces_validated_against_impl=r['executions'], deviation_bound=bound, distinct_outcomes=len(r['outcomes']),
               exhaustive=not r['capped'], decision_points_default=r['default_points'], samples=r['samples'] or [{'choices': []}])
  rep.assumptions = [
      '"modify a derived phase" = assign option fields, append/pop/clear its own lists, set its extra_kwargs; a shared Measurement '
      'declaration object is never mutated in place by the harness',
      'operations the library itself rejects (exceptions) are not part of the history space',
      'schedules: bodies yield at two points per phase; scheduling points also at every line of PhaseState.from_descriptor and '
      'TestState.running_phase_context and at primitives created in test_state.py; deviation-bounded',
  ]
  return rep.finish(rule='histories: all (operation, source) sequences up to the depth over 13 derive ops, 8 mutations, execute; '
                         'snapshot of all other objects compared after every step')


def replay(art):
  r = art['replay']
  if r.get('part') == 'special':
    progs.lib()
    hit = [b for b in special_cases() if b[0] == art['signature']]
    for b in hit:
      print('VIOLATED', b[0], b[1])
    return 1 if hit else 0
  if r.get('part') == 'schedules':
    ex = execute_s(r['choices'])
    bad = check_s(ex)
    for b in bad:
      print('VIOLATED', b[0], b[1])
    return 1 if bad else 0
  bad = run_history([tuple(x) for x in r['hist']]) or []
  for b in bad:
    print('VIOLATED', b)
  return 1 if bad else 0
