"""C03 schedules part: a single abort arriving at any moment, group teardown must still run exactly once."""
from vf import common
from vf.harness import c04
from vf.sched import explore


def check(cfg):
  def chk(ex):
    rep = {'part': 'schedules', 'cfg': list(cfg), 'choices': ex.choices}
    out = []
    if ex.failure is not None:
      out.append(('schedules:no-return:%s' % cfg[0], 'execute() did not return: %s' % (ex.failure,), rep))
      return out
    v = ex.result['value']
    if not isinstance(v, dict):
      out.append(('schedules:harness-exception:%s' % cfg[0], 'scenario raised %r' % (v,), rep))
      return out
    if cfg[2] == 'sigint':
      # one Ctrl-C = a single operator abort; runs in which the signal hit one of execute()'s unprotected windows are
      # C04's known findings, not judged here
      if any(k.startswith('sigint-') for k, _ in c04.analyse(cfg, ex)):
        return out
    for kind, what in c04.group_rules(cfg[0], ex.result['events']):
      out.append(('schedules:%s:%s' % (kind, cfg[0]), '%s, single abort (%s, %s): %s; events %r'
                  % (cfg[0], cfg[2], cfg[3], what, [e[:3] for e in ex.result['events'] if e[0] != 'line'][:40]), rep))
    return out
  return chk


def configs(tier):
  if tier == 'quick':
    return [(('group', 1, 'thread', 'wide'), 0), (('nested_main', 1, 'thread', 'wide'), 0), (('nested_td', 1, 'thread', 'wide'), 0),
            (('group_deaf', 1, 'thread', 'main'), 0), (('group_deaf0', 1, 'thread', 'main'), 0),
            (('group_in_subtest', 1, 'thread', 'wide'), 0), (('group', 1, 'thread', 'main'), 1), (('group', 1, 'sigint', 'free'), 0)]
  return [(('group', 1, 'thread', 'all'), 1), (('nested_main', 1, 'thread', 'all'), 1), (('nested_td', 1, 'thread', 'all'), 1),
          (('group_in_subtest', 1, 'thread', 'all'), 1), (('group', 1, 'thread', 'body'), 2), (('nested_main', 1, 'thread', 'body'), 2),
          (('group', 1, 'sigint', 'free'), 1), (('nested_main', 1, 'sigint', 'free'), 0), (('group_in_subtest', 1, 'sigint', 'free'), 0)]


def run_into(rep, tier):
  explore.set_plan(common.thorough_budget(tier), len(configs(tier)))
  for cfg, bound in configs(tier):
    r = explore.explore('C03:%r' % (cfg,), lambda ch, cfg=cfg: c04.execute(cfg, ch), check(cfg), bound,
                        cap=30000 if tier == 'quick' else 400000)
    rep.merge_violations(r['violations'])
    rep.add_part('schedules %s gates=%s' % (cfg[0], cfg[3]), states=max(1, r['states']), transitions=r['steps'],
                 traces_validated_against_impl=r['executions'], deviation_bound=bound, distinct_outcomes=len(r['outcomes']),
                 exhaustive=not r['capped'], decision_points_default=r['default_points'], samples=r['samples'] or [{'choices': []}])


def replay(r):
  cfg = tuple(r['cfg'])
  ex = c04.execute(cfg, r['choices'])
  bad = check(cfg)(ex)
  print('events', [e[:3] for e in ex.result['events'] if e[0] != 'line'])
  for b in bad:
    print('VIOLATED', b[0], b[1])
  return 1 if bad else 0
