"""C09 execute() hands a complete, final record to every callback exactly once.

Histories of consecutive execute() calls on ONE Test object, each call with a
plan (test_start mode x behaviour of the main phase: ok / fail / exception /
timeout / all-skipped / plug constructor failure / abort / re-entrant
execute()), crossed with every subset of three recording callbacks that raise.
The record handed to each callback is checked by a structural predicate; after
each call the global registrations must be gone and the Test reusable.
"""
import itertools
import json
import logging
import threading
import time

from vf import common, htf, progs

PID = 'C09'
TS_MODES = ['none', 'dut', 'lambda', 'raise']
X_MODES = ['ok', 'fail', 'raise', 'hang', 'skip', 'plugfail', 'abort', 'reenter', 'setdut', 'cbreenter', 'abort_runif', 'sysexit', 'sigint', 'profskip']


class CbBoom(Exception):
  pass


EXPECT_MD = [('c09test', None)]      # (test name, station_id) the current run was configured with


def build_test(state):
  """state: dict(plan=..., log=[...]) mutated per run."""
  L = progs.lib()
  h = L['htf']
  from openhtf.core import base_plugs  # pylint: disable=g-import-not-at-top

  class FlakyPlug(base_plugs.BasePlug):

    def __init__(self):
      if state['plan'][1] == 'plugfail':
        raise progs.PhaseBoom('plug constructor failed')

    def tearDown(self):
      state['log'].append(('plug_teardown',))

  @h.plugs.plug(update_kwargs=False, fp=FlakyPlug)
  @h.measures(h.Measurement('m').in_range(0, 10))
  def x(test):
    mode = state['plan'][1]
    state['log'].append(('x', mode))
    test.measurements.m = 5
    test.logger.info('x runs in mode %s', mode)
    if mode == 'setdut':
      test.dut_id = 'DUT-X'
    if mode == 'fail':
      return h.PhaseResult.FAIL_AND_CONTINUE
    if mode == 'skip':
      return h.PhaseResult.SKIP
    if mode == 'raise':
      raise progs.PhaseBoom('x failed')
    if mode == 'sysexit':
      raise SystemExit(2)         # the phase thread dies without a result
    if mode == 'hang':
      progs.CLOCK.hanging.add(threading.current_thread())
      while True:
        time.sleep(0.0005)
    if mode == 'abort':
      t = threading.Thread(target=state['test'].abort_from_sig_int, name='aborter')
      t.daemon = True
      t.start()
      while True:
        time.sleep(0.0005)
    if mode == 'sigint':
      # a real Ctrl-C while the test runs and is registered for it; the wind-down (teardown phase below) then takes
      # longer than cancel_timeout_s
      import os, signal  # pylint: disable=g-import-not-at-top,multiple-imports
      while not any(t is state['test'] for t in list(h.Test.TEST_INSTANCES.values())):      # (THIS test is registered)
        time.sleep(0.001)
      # (to the main thread, as a terminal's Ctrl-C is served: a process-directed signal that the kernel happens to hand to
      # another thread is only noticed when the main thread next runs bytecode -- here: when the phase has timed out)
      signal.pthread_kill(threading.main_thread().ident, signal.SIGINT)
      while True:
        time.sleep(0.0005)
    if mode == 'reenter':
      try:
        state['test'].execute()
        state['log'].append(('reenter', 'accepted'))
      except Exception as e:  # pylint: disable=broad-except
        state['log'].append(('reenter', type(e).__name__))
    return None

  def t(test):
    state['log'].append(('teardown_phase',))
    if state['plan'][1] == 'sigint':
      time.sleep(0.15)
    state['log'].append(('teardown_phase_end',))

  def y_run_if():
    # an abort that arrives between two phases: issued (synchronously) while the executor decides whether to run y
    if state['plan'][1] == 'abort_runif':
      state['test'].abort_from_sig_int()
    if state['plan'][1] == 'profskip':
      return False       # (a profiled run in which one phase is never started)
    return True

  @h.PhaseOptions(run_if=y_run_if)
  def y(test):
    state['log'].append(('y',))

  test = h.Test(h.PhaseGroup(main=[x, y], teardown=[t]), test_name='c09test')
  state['test'] = test
  return test


def make_test_start(state):
  L = progs.lib()
  h = L['htf']
  mode = state['plan'][0]
  if mode == 'none':
    return None
  if mode == 'lambda':
    return lambda: 'DUT-L'
  def ts(test):
    state['log'].append(('test_start', mode))
    if mode == 'raise':
      raise progs.PhaseBoom('test_start failed')
    test.dut_id = 'DUT-TS'
  return h.PhaseOptions(name='ts')(ts)


def expected_outcome(plan):
  tsm, xm = plan
  if tsm == 'raise':
    return 'ERROR'
  return {'ok': 'PASS', 'setdut': 'PASS', 'fail': 'FAIL', 'raise': 'ERROR', 'hang': 'TIMEOUT', 'skip': 'PASS',
          'plugfail': 'ERROR', 'abort': 'ABORTED', 'reenter': 'PASS', 'cbreenter': 'PASS', 'abort_runif': 'ABORTED', 'sysexit': 'ERROR',
          'sigint': 'ABORTED', 'profskip': 'PASS'}[xm]


def check_record(rec, plan, state_at_cb):
  L = progs.lib()
  bad = []
  if rec.outcome is None:
    bad.append(('no-outcome', 'record outcome is None'))
  if not rec.end_time_millis:
    bad.append(('no-end-time', 'end_time_millis is %r' % (rec.end_time_millis,)))
  elif not rec.start_time_millis or rec.start_time_millis > rec.end_time_millis:
    bad.append(('start-after-end', 'start %r end %r' % (rec.start_time_millis, rec.end_time_millis)))
  for p in rec.phases:
    if p.outcome is None or p.result is None or p.options is None:
      bad.append(('phase-incomplete', 'phase %s outcome=%r result=%r options=%r' % (p.name, p.outcome, p.result, p.options)))
    if not p.start_time_millis or not p.end_time_millis or p.start_time_millis > p.end_time_millis:
      bad.append(('phase-times', 'phase %s start %r end %r' % (p.name, p.start_time_millis, p.end_time_millis)))
    elif rec.end_time_millis and p.end_time_millis > rec.end_time_millis:
      bad.append(('phase-ends-after-test', 'phase %s ends at %r, test ended at %r (record changed after it was finished)'
                  % (p.name, p.end_time_millis, rec.end_time_millis)))
  if not rec.dut_id:
    bad.append(('dut-id', 'dut_id is %r' % (rec.dut_id,)))
  else:
    tsm, xm = plan
    want = 'UNKNOWN_DUT'
    if tsm == 'dut':
      want = 'DUT-TS'
    elif tsm == 'lambda':
      want = 'DUT-L'
    if xm == 'setdut' and tsm != 'raise':
      want = 'DUT-X'
    if rec.dut_id != want:
      bad.append(('dut-id-value', 'dut_id %r expected %r' % (rec.dut_id, want)))
  md = rec.metadata or {}
  want_name, want_station = EXPECT_MD[0]
  if md.get('test_name') != want_name or not isinstance(md.get('config'), dict):
    bad.append(('metadata', 'metadata test_name %r (this run was configured as %r), config %s'
                % (md.get('test_name'), want_name, type(md.get('config')).__name__)))
  elif md['config'].get('station_id') != want_station:
    bad.append(('metadata-config', 'metadata config snapshot has station_id %r, the configuration of this run says %r'
                % (md['config'].get('station_id'), want_station)))
  if state_at_cb is not None and state_at_cb.running_phase_state is not None:
    bad.append(('phase-still-running', 'a phase is still marked running while callbacks run'))
  return bad


def run_history(hist, raising):
  """hist: list of plans; raising: tuple of 3 bools."""
  L = progs.lib()
  h = L['htf']
  state = {'plan': None, 'log': []}
  test = build_test(state)
  calls = []

  def mk_cb(i):
    def cb(rec):
      calls.append((i, rec, test.state))
      if i == 1 and state['plan'][1] == 'cbreenter' and not state.get('in_cb'):
        # a second execute() overlapping the tail of the first one (still inside execute())
        state['in_cb'] = True
        saved = list(calls)
        try:
          test.execute()
          state['log'].append(('cbreenter', 'accepted'))
        except Exception as e:  # pylint: disable=broad-except
          state['log'].append(('cbreenter', type(e).__name__))
        finally:
          state['in_cb'] = False
          calls[:] = saved
      if raising[i]:
        raise CbBoom('callback %d failed' % i)
    return cb

  test.add_output_callbacks(*[mk_cb(i) for i in range(3)])
  htf_logger = logging.getLogger('openhtf')
  base_handlers = len(htf_logger.handlers)
  # every reading of the record clock is one millisecond later than the previous one: with a clock like that a correct
  # run can never record "start after end" / "phase ends after the test"
  from openhtf import util as _util  # pylint: disable=g-import-not-at-top
  import time as _time  # pylint: disable=g-import-not-at-top
  tick = {'t': int(_time.time() * 1000)}
  real_time_millis = _util.time_millis

  def stepping_millis():
    tick['t'] += 1
    return tick['t']

  _util.time_millis = stepping_millis
  viols = []
  outcomes = []
  conf = L['conf']
  for run_idx, plan in enumerate(hist):
    # every run of a history is configured differently: the record must carry *this* run's name and configuration
    name, station = 'c09test-%d' % run_idx, 'station-%d' % run_idx
    test.configure(name=name)
    conf.load(station_id=station, cancel_timeout_s=0.02 if plan[1] == 'sigint' else 2)
    EXPECT_MD[0] = (name, station)
    state['plan'] = plan
    del state['log'][:]
    del calls[:]
    res = exc = None
    saved_default_timeout = L['pe'].DEFAULT_PHASE_TIMEOUT_S
    if plan[1] == 'sigint':
      L['pe'].DEFAULT_PHASE_TIMEOUT_S = 5.0      # (bounds what a late-served signal costs: DESIGN.md 7.3)
    prof = None
    if plan[1] == 'profskip':
      import os, tempfile  # pylint: disable=g-import-not-at-top,multiple-imports
      prof = os.path.join(tempfile.gettempdir(), 'vf-c09-prof-%d' % os.getpid())
    try:
      if prof:
        res = test.execute(test_start=make_test_start(state), profile_filename=prof)
      else:
        res = test.execute(test_start=make_test_start(state))
    except BaseException as e:  # pylint: disable=broad-except
      exc = e
    finally:
      L['pe'].DEFAULT_PHASE_TIMEOUT_S = saved_default_timeout
      if prof and os.path.exists(prof):
        os.remove(prof)
    h.Test.HANDLED_SIGINT_ONCE = False
    tag = 'run%d:%s/%s' % (run_idx, plan[0], plan[1])
    if plan[1] == 'sigint' and plan[0] != 'raise':
      # execute() may end by re-raising KeyboardInterrupt: even then the record handed out is complete and final
      if exc is not None and not isinstance(exc, KeyboardInterrupt):
        viols.append(('execute-raised', '%s: execute() raised %r' % (tag, exc)))
        break
      if calls and ('teardown_phase_end',) not in state['log'][:]:
        viols.append(('record-before-wind-down', '%s: output callbacks ran before the teardown phase had finished' % tag))
      if calls and not any(p.name == 't' for p in calls[0][1].phases):
        viols.append(('teardown-record-missing', '%s: the record handed to the callbacks lacks the teardown phase' % tag))
      exc = None
    if exc is not None:
      viols.append(('execute-raised', '%s: execute() raised %r' % (tag, exc)))
      break
    exp = expected_outcome(plan)
    if [c[0] for c in calls] != [0, 1, 2]:
      viols.append(('callback-calls', '%s: callbacks invoked in order %r, expected [0, 1, 2] exactly once each (raising=%r)'
                    % (tag, [c[0] for c in calls], raising)))
    if calls:
      rec = calls[0][1]
      if any(c[1] is not rec for c in calls):
        viols.append(('different-records', '%s: callbacks received different record objects' % tag))
      outcomes.append(rec.outcome.name if rec.outcome else None)
      if (res is True) != (rec.outcome is not None and rec.outcome.name == 'PASS'):
        viols.append(('return-value', '%s: execute() returned %r with outcome %s' % (tag, res, rec.outcome)))
      if rec.outcome is not None and rec.outcome.name != exp and not (exp == 'ABORTED' and rec.outcome.name == 'TIMEOUT'):
        # (a real Ctrl-C that is served only after the phase timed out: DESIGN.md 7.3; the abort outcome is C04's subject)
        viols.append(('outcome', '%s: outcome %s expected %s' % (tag, rec.outcome.name, exp)))
      for kind, what in check_record(rec, plan, calls[0][2]):
        viols.append((kind, '%s: %s' % (tag, what)))
      if plan[1] == 'cbreenter' and ('cbreenter', 'InvalidTestStateError') not in state['log']:
        viols.append(('overlap-not-refused', '%s: execute() issued from an output callback of the running call gave %r'
                      % (tag, [e for e in state['log'] if e[0] == 'cbreenter'])))
      if plan[1] == 'reenter' and plan[0] != 'raise' and ('reenter', 'InvalidTestStateError') not in state['log']:
        viols.append(('overlap-not-refused', '%s: overlapping execute() gave %r' % (tag, [e for e in state['log'] if e[0] == 'reenter'])))
    # afterwards
    if test.state is not None or test._executor is not None:  # pylint: disable=protected-access
      viols.append(('executor-left', '%s: Test still holds an executor/state after execute() returned' % tag))
    if any(t is test for t in list(h.Test.TEST_INSTANCES.values())):
      viols.append(('still-registered', '%s: Test still registered in TEST_INSTANCES' % tag))
    if len(htf_logger.handlers) != base_handlers:
      viols.append(('handler-leak', '%s: openhtf logger has %d handlers, %d before the run'
                    % (tag, len(htf_logger.handlers), base_handlers)))
  conf.reset()
  _util.time_millis = real_time_millis
  return viols, outcomes


def histories(tier):
  plans = [(a, b) for a in TS_MODES for b in X_MODES]
  for p in plans:
    yield [p]
  seconds = plans if tier == 'thorough' else [('none', 'ok'), ('dut', 'raise'), ('none', 'abort'), ('raise', 'ok'), ('none', 'plugfail')]
  for p in plans:
    for q in seconds:
      yield [p, q]
  if tier == 'thorough':
    firsts = [('none', 'abort'), ('none', 'plugfail'), ('raise', 'ok'), ('none', 'hang'), ('dut', 'reenter')]
    for a in firsts:
      for b in firsts:
        for c in [('none', 'ok'), ('dut', 'fail'), ('none', 'abort')]:
          yield [a, b, c]


def _work(item):
  tier, start, step = item
  n, viols, outcomes, sample = 0, [], set(), None
  for i, hist in enumerate(histories(tier)):
    if i % step != start:
      continue
    subsets = list(itertools.product([False, True], repeat=3))
    if len(hist) > 1 and tier == 'quick':
      subsets = [(False, False, False), (True, False, False), (False, True, True)]
    for raising in subsets:
      n += 1
      v, outs = run_history(hist, raising)
      outcomes.add((tuple(map(tuple, hist)), tuple(outs)))
      if sample is None and len(hist) == 2:
        sample = {'history': hist, 'raising_callbacks': raising, 'outcomes': outs}
      for kind, what in v:
        viols.append(('%s:%s' % (kind, '>'.join('%s/%s' % tuple(p) for p in hist)),
                      'history %s raising=%s: %s' % (json.dumps(hist), raising, what), {'hist': hist, 'raising': raising}))
  return n, viols, len(outcomes), sample


def run(tier):
  rep = common.Report(PID, tier, 'model_checking')
  progs.lib()
  step = common.NCPU * 4
  res = common.pmap(_work, common.rotate([(tier, s, step) for s in range(step)]), chunksize=1)
  n = sum(r[0] for r in res)
  samples = []
  for r in res:
    rep.merge_violations(r[1])
    if r[3] and len(samples) < 2:
      samples.append(r[3])
  rep.add_part('histories-x-callbacks', states=n, transitions=n, traces_validated_against_impl=n, evaluations=n,
               distinct_nontrivial=sum(r[2] for r in res), exhaustive=True, samples=samples)
  from vf.harness import c09_sched  # pylint: disable=g-import-not-at-top
  c09_sched.run_into(rep, tier)
  rep.assumptions = [
      'one generic Test (group with main phase X and a teardown phase, plug, measurement, log line) whose behaviour per run comes from '
      'the plan; 4 test_start modes x 9 X modes; histories of 1-2 (3 in thorough) consecutive execute() calls',
      'KeyboardInterrupt re-raise path is exercised under the scheduler in C04, not here',
  ]
  return rep.finish(rule='states = (history, raising-callback subset) executions; structural record predicate + registration checks after every call')


def replay(art):
  r = art['replay']
  if r.get('part') in ('schedules', 'sigint'):
    from vf.harness import c09_sched  # pylint: disable=g-import-not-at-top
    return c09_sched.replay(r)
  v, outs = run_history([tuple(p) for p in r['hist']], tuple(r['raising']))
  print('outcomes', outs)
  for b in v:
    print('VIOLATED', b)
  return 1 if v else 0
