"""C09 schedules part: two threads calling execute() on ONE Test object under the controlled scheduler."""
import logging
import threading

from vf import common
from vf import htf
from vf.sched import explore, runtime


def scenario():
  htf.init()
  import openhtf as h  # pylint: disable=g-import-not-at-top
  from openhtf.core import test_descriptor  # pylint: disable=g-import-not-at-top

  def fn(sched):
    log = []

    def p(test):
      runtime.vlog('body-start', threading.current_thread().name)
      runtime.yield_point('body')
      runtime.vlog('body-end')

    test = h.Test(p)
    cbs = []
    test.add_output_callbacks(lambda rec: cbs.append(rec))
    base = len([x for x in logging.getLogger('openhtf').handlers if type(x).__name__ == 'RecordHandler'])
    res = {}

    def call(tag):
      runtime.vlog('call', tag)
      try:
        res[tag] = test.execute()
      except test_descriptor.InvalidTestStateError:
        res[tag] = 'refused'
      except BaseException as e:  # pylint: disable=broad-except
        res[tag] = 'EXC:%s:%s' % (type(e).__name__, str(e)[:80])
      runtime.vlog('return', tag, res[tag])

    ths = [threading.Thread(target=call, args=(t,), name='caller' + t) for t in ('A', 'B')]
    for t in ths:
      t.start()
    for t in ths:
      t.join()
    left = len([x for x in logging.getLogger('openhtf').handlers if type(x).__name__ == 'RecordHandler']) - base
    for x in [x for x in logging.getLogger('openhtf').handlers if type(x).__name__ == 'RecordHandler'][base:]:
      logging.getLogger('openhtf').removeHandler(x)
    return {'res': res, 'callbacks': len(cbs), 'outcomes': [r.outcome.name if r.outcome else None for r in cbs],
            'state_left': test.state is not None, 'registered': len(test_descriptor.Test.TEST_INSTANCES), 'handlers_left': left}

  return fn


def execute(choices):
  htf.init()
  from openhtf.core import test_descriptor  # pylint: disable=g-import-not-at-top
  sched, value = explore.run_under_scheduler(
      scenario(), choices, focus_targets=[test_descriptor.Test.execute], focus_files=('openhtf/core/test_descriptor.py',),
      max_steps=40000)
  ev = [e for e in sched.events if e[0] != 'line']
  result = {'value': value if isinstance(value, dict) else repr(value), 'events': ev,
            'failure': repr(sched.failure) if sched.failure else None, 'outcome_key': repr(value)[:300]}
  return explore.Exec(list(choices), sched.points, result, sched.failure, sched.steps, len(sched.trace), sched.state_hashes)


def check(ex):
  rep = {'part': 'schedules', 'choices': ex.choices}
  v = ex.result['value']
  if ex.failure is not None or not isinstance(v, dict):
    return [('schedules:failure', 'two execute() calls on one Test did not both return: %s / %s' % (ex.failure, v), rep)]
  out = []
  ran = [t for t, r in v['res'].items() if r in (True, False)]
  refused = [t for t, r in v['res'].items() if r == 'refused']
  other = {t: r for t, r in v['res'].items() if r not in (True, False, 'refused')}
  if other:
    out.append(('schedules:unexpected-exception', 'execute() raised %r' % (other,), rep))
  if not ran:
    out.append(('schedules:nobody-ran', 'both calls were refused: %r' % (v['res'],), rep))
  if v['callbacks'] != len(ran):
    out.append(('schedules:callback-count', '%d calls ran but the output callback was invoked %d times (outcomes %r)'
                % (len(ran), v['callbacks'], v['outcomes']), rep))
  if any(o != 'PASS' for o in v['outcomes']):
    out.append(('schedules:outcome', 'outcomes %r' % (v['outcomes'],), rep))
  bodies = [e for e in ex.result['events'] if e[0] in ('body-start', 'body-end')]
  depth = 0
  for e in bodies:
    depth += 1 if e[0] == 'body-start' else -1
    if depth > 1:
      out.append(('schedules:overlapping-runs', 'two runs of one Test overlapped: %r' % (bodies,), rep))
      break
  if v['state_left'] or v['registered'] or v['handlers_left']:
    out.append(('schedules:leftovers', 'after both calls: state_left=%s registered=%s handlers_left=%s'
                % (v['state_left'], v['registered'], v['handlers_left']), rep))
  return out


# ---- SIGINT: "when execute() returns (or re-raises KeyboardInterrupt) the record is complete ... called exactly once" ----
SIGINT_CFGS = {'quick': [(('plain3', 2, 'sigint', 'free'), 0), (('group', 2, 'sigint', 'free'), 0)],
               'thorough': [(('plain3', 2, 'sigint', 'free'), 0), (('group', 2, 'sigint', 'free'), 0), (('repeat', 2, 'sigint', 'free'), 0),
                            (('plain3', 1, 'sigint'), 1)]}
C09_KINDS = ('callbacks', 'state-left', 'harness-exception', 'bad-return', 'no-return', 'prestart-', 'sigint-')


def sigint_check(cfg):
  from vf.harness import c04  # pylint: disable=g-import-not-at-top

  def chk(ex):
    rep = {'part': 'sigint', 'cfg': list(cfg), 'choices': ex.choices}
    out = []
    for kind, what in c04.analyse(cfg, ex):
      if kind.startswith(C09_KINDS):
        out.append(('sigint:%s:%s:%s' % (kind, cfg[0], c04.sigint_zone(ex)), 'SIGINT x%d during execute() of %s: %s; events %r'
                    % (cfg[1], cfg[0], what, [e[:4] for e in ex.result['events'] if e[0] != 'line'][:40]), rep))
    return out
  return chk


def run_sigint_into(rep, tier):
  from vf.harness import c04  # pylint: disable=g-import-not-at-top
  for cfg, bound in SIGINT_CFGS[tier]:
    r = explore.explore('C09:sig:%r' % (cfg,), lambda ch, cfg=cfg: c04.execute(cfg, ch), sigint_check(cfg), bound,
                        cap=30000 if tier == 'quick' else 200000)
    rep.merge_violations(r['violations'])
    rep.add_part('sigint %s x%d' % (cfg[0], cfg[1]), states=max(1, r['states']), transitions=r['steps'],
                 traces_validated_against_impl=r['executions'], deviation_bound=bound, distinct_outcomes=len(r['outcomes']),
                 exhaustive=not r['capped'], decision_points_default=r['default_points'], samples=r['samples'] or [{'choices': []}])


def run_into(rep, tier):
  explore.set_plan(common.thorough_budget(tier), len(SIGINT_CFGS[tier]) + 1)
  run_sigint_into(rep, tier)
  bound = 1 if tier == 'quick' else 2
  r = explore.explore('C09:S', execute, check, bound, cap=30000 if tier == 'quick' else 300000)
  rep.merge_violations(r['violations'])
  rep.add_part('schedules two threads execute() one Test', states=max(1, r['states']), transitions=r['steps'],
               traces_validated_against_impl=r['executions'], deviation_bound=bound, distinct_outcomes=len(r['outcomes']),
               exhaustive=not r['capped'], decision_points_default=r['default_points'], samples=r['samples'] or [{'choices': []}])


def replay(r):
  if r.get('part') == 'sigint':
    from vf.harness import c04  # pylint: disable=g-import-not-at-top
    cfg = tuple(r['cfg'])
    ex = c04.execute(cfg, r['choices'])
    print([e[:4] for e in ex.result['events'] if e[0] != 'line'])
    bad = sigint_check(cfg)(ex)
    for b in bad:
      print('VIOLATED', b[0], b[1][:600])
    return 1 if bad else 0
  ex = execute(r['choices'])
  print(ex.result['value'])
  bad = check(ex)
  for b in bad:
    print('VIOLATED', b[0], b[1])
  return 1 if bad else 0
