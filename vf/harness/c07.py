"""C07 built-in validators: boundary-complete exhaustive input grids vs vf/ref/valspec.py."""
import copy
import itertools
import math
import re

from vf import common
from vf.ref import valspec as ref

PID = 'C07'
INF = float('inf')
NAN = float('nan')


def V():
  from openhtf.util import validators  # pylint: disable=g-import-not-at-top
  return validators


def fmt(x):
  """Short printable form (huge ints as +-10**N)."""
  if isinstance(x, int) and not isinstance(x, bool) and abs(x) >= 10**30:
    return '%s10**%d' % ('-' if x < 0 else '', len(str(abs(x))) - 1)
  if isinstance(x, (list, tuple)):
    return '[%s]' % ','.join(fmt(i) for i in x)
  return repr(x)


def fmt_desc(desc):
  return re.sub(r'\d{31,}', lambda m: '10**%d' % (len(m.group(0)) - 1), desc)


def cls_of(desc):
  return desc.split('(')[0]


class Part(object):

  def __init__(self, name):
    self.name = name
    self.evals = 0
    self.distinct = set()
    self.viols = []
    self.samples = []

  def case(self, key, sample=None):
    self.evals += 1
    self.distinct.add(key)
    if sample is not None and len(self.samples) < 3:
      self.samples.append(sample)

  def bad(self, sig, what, replay=None):
    self.viols.append(('%s:%s' % (self.name, fmt_desc(sig)), fmt_desc(what), replay))


def truthy_call(fn, *a):
  """(accepted?, exception-or-None): a raise counts as 'not accepted'."""
  try:
    return bool(fn(*a)), None
  except Exception as e:  # pylint: disable=broad-except
    return False, e


def neighbours(x):
  if isinstance(x, bool) or x is None or isinstance(x, str):
    return []
  try:
    f = float(x)
  except OverflowError:
    return []
  if math.isinf(f) or f != x:
    return []
  return [math.nextafter(f, -INF), math.nextafter(f, INF)]


def probes_for(limits):
  ps = [None, NAN, 0.0, -0.0, INF, -INF, 2**63, -2**63, 10**400, -10**400,
        True, False, 5, 0.5]
  for l in limits:
    if l is None or isinstance(l, str):
      continue
    ps.append(l)
    ps.extend(neighbours(l))
  out, seen = [], set()
  for p in ps:
    k = (type(p).__name__, repr(p))
    if k not in seen:
      seen.add(k)
      out.append(p)
  return out


def check_range_validator(part, v, lo, hi, mlo, mhi, desc, probes):
  for p in probes:
    exp = ref.in_range(lo, hi, p)
    got, exc = truthy_call(v, p)
    part.case(('call', desc, repr(p)), {'validator': desc, 'value': repr(p), 'accepted': got})
    if exp is not None and got != exp:
      part.bad('call:%s:%s:exp=%s' % (cls_of(desc), fmt(p), exp),
               '%s(%r): accepted=%s (exc=%r) but limits say %s' % (desc, p, got, exc, exp),
               {'validator': desc, 'value': repr(p)})
    expm = ref.range_marginal(lo, hi, mlo, mhi, p)
    if expm is not None:
      gm, exc = truthy_call(v.is_marginal, p)
      part.case(('marg', desc, repr(p)))
      if gm != expm:
        part.bad('marginal:%s:%s:exp=%s' % (cls_of(desc), fmt(p), expm),
                 '%s.is_marginal(%r) = %s (exc=%r), expected %s' % (desc, p, gm, exc, expm),
                 {'validator': desc, 'value': repr(p)})


def part_ranges(tier):
  v = V()
  part = Part('range')
  L = [None, -5, 0, 1, 2.5, 10, True, -0.0, INF, 2**63]
  if tier == 'thorough':
    L += [0.1, -INF, 1e308, 5e-324, -10]
  for cls_name in ('InRange', 'AllInRangeValidator'):
    cls = getattr(v, cls_name)
    for lo, hi, mlo, mhi in itertools.product(L, repeat=4):
      verdict = ref.ctor_verdict(lo, hi, mlo, mhi)
      desc = '%s(%r,%r,%r,%r)' % (cls_name, lo, hi, mlo, mhi)
      try:
        obj = cls(lo, hi, mlo, mhi)
        built = True
      except ValueError:
        built = False
        obj = None
      part.case(('ctor', desc))
      if verdict == 'reject' and built:
        part.bad('ctor-accepts:%s' % fmt_desc(desc), '%s constructed although the limits are inconsistent' % desc,
                 {'ctor': desc})
      if verdict == 'accept' and not built:
        part.bad('ctor-rejects:%s' % fmt_desc(desc), '%s rejected although the limits are consistent' % desc,
                 {'ctor': desc})
      if not built or verdict != 'accept':
        continue
      probes = probes_for([lo, hi, mlo, mhi])
      if cls_name == 'InRange':
        check_range_validator(part, obj, lo, hi, mlo, mhi, desc, probes)
      else:
        # list validator: singletons of every probe (lists proper are in part_lists)
        for p in probes:
          exp = ref.in_range(lo, hi, p)
          got, exc = truthy_call(obj, [p])
          part.case(('call1', desc, repr(p)))
          if exp is not None and got != exp:
            part.bad('call:%s:[%s]:exp=%s' % (cls_of(desc), fmt(p), exp),
                     '%s([%r]) accepted=%s (exc=%r), limits say %s' % (desc, p, got, exc, exp),
                     {'validator': desc, 'value': [repr(p)]})
          expm = ref.range_marginal(lo, hi, mlo, mhi, p)
          if expm is not None:
            gm, exc = truthy_call(obj.is_marginal, [p])
            part.case(('marg1', desc, repr(p)))
            if gm != expm:
              part.bad('marginal:%s:[%s]:exp=%s' % (cls_of(desc), fmt(p), expm),
                       '%s.is_marginal([%r]) = %s (exc=%r) expected %s' % (desc, p, gm, exc, expm),
                       {'validator': desc, 'value': [repr(p)]})
  return part


def part_typed(tier):
  v = V()
  part = Part('typed')
  cases = [
      ('1', '10', None, None, int), ('1.5', '2.5', None, None, float),
      (1.9, 10.9, None, None, int), ('0', '10', '2', '8', int),
      ('-4', None, None, None, int), (None, '2.5', None, '2.25', float),
      (True, '3', None, None, int),
  ]
  for lo, hi, mlo, mhi, typ in cases:
    desc = 'InRange(%r,%r,%r,%r,type=%s)' % (lo, hi, mlo, mhi, typ.__name__)
    obj = v.InRange(lo, hi, mlo, mhi, type=typ)
    clo, chi, cmlo, cmhi = (ref.conv(x, typ) for x in (lo, hi, mlo, mhi))
    check_range_validator(part, obj, clo, chi, cmlo, cmhi, desc,
                          probes_for([clo, chi, cmlo, cmhi]))
    # equals with a declared type converts too
  for spec, typ in [(5.7, int), (2, float), (True, int)]:
    obj = v.equals(spec, type=typ)
    c = typ(spec)
    desc = 'equals(%r,type=%s)' % (spec, typ.__name__)
    check_range_validator(part, obj, c, c, None, None, desc, probes_for([c, spec]))
  return part


def part_equals(tier):
  v = V()
  part = Part('equals')
  for spec in [0, -0.0, 1, 2.5, True, 2**63, INF, -7, 10**30]:
    obj = v.equals(spec)
    desc = 'equals(%r)' % (spec,)
    check_range_validator(part, obj, spec, spec, None, None, desc, probes_for([spec]))
  for spec in ['abc', 'a.c', '', 'x$', '5', '^a', 'a b', '[z]', 'é(']:
    obj = v.equals(spec)
    desc = 'equals(%r)' % (spec,)
    probes = [spec, spec + '\n', spec + '\n\n', spec + 'x', 'x' + spec, spec.upper(),
              spec[:-1], '\n' + spec, spec + ' ', spec + '\n ', spec + '\r\n', 'abc', 'aXc', 'z', 5, None]
    probes += [spec.replace('.', 'x'), spec.replace('$', ''), spec.replace('[z]', 'z'), spec.replace('(', '')]
    import copy  # pylint: disable=g-import-not-at-top
    for how, o in (('', obj), ('deepcopy:', None), ('copy:', None)):
      if how:
        try:
          o = copy.deepcopy(obj) if how == 'deepcopy:' else copy.copy(obj)
        except Exception as e:  # pylint: disable=broad-except
          part.bad('%s%s:raised' % (how, cls_of(desc)), '%s of %s raised %r' % (how, desc, e), {'validator': desc})
          continue
      for p in probes:
        exp = ref.equals_str(spec, p)
        got, exc = truthy_call(o, p)
        part.case(('str', how + desc, repr(p)), {'validator': how + desc, 'value': repr(p), 'accepted': got})
        if got != exp:
          part.bad('%scall:%s:%s:exp=%s' % (how, cls_of(desc), fmt(p), exp), '%s%s(%r) accepted=%s (exc=%r) expected %s' % (how, desc, p, got, exc, exp),
                   {'validator': desc, 'value': repr(p)})
  for spec in [None, [1, 2], (1, 'a'), {'k': 1}]:
    obj = v.equals(spec)
    desc = 'equals(%r)' % (spec,)
    for p in [None, [1, 2], [1, 2, 3], (1, 'a'), {'k': 1}, {'k': 2}, 0, '', 'None']:
      exp = (p == spec)
      got, exc = truthy_call(obj, p)
      part.case(('obj', desc, repr(p)))
      if got != exp:
        part.bad('call:%s:%s:exp=%s' % (cls_of(desc), fmt(p), exp), '%s(%r) accepted=%s (exc=%r) expected %s' % (desc, p, got, exc, exp),
                 {'validator': desc, 'value': repr(p)})
  return part


REGEX_TABLE = [
    # pattern, reference predicate on str(value): matched FROM THE START
    ('abc', lambda s: s.startswith('abc')),
    ('b', lambda s: s.startswith('b')),
    ('^a.c$', lambda s: (len(s) == 3 or (len(s) == 4 and s[3] == '\n')) and s[0] == 'a' and s[2] == 'c' and s[1] != '\n'),
    ('\\d+', lambda s: s[:1] in tuple('0123456789')),
    ('a|b', lambda s: s[:1] in ('a', 'b')),
    ('', lambda s: True),
    ('.*z', lambda s: 'z' in s.split('\n')[0]),
    ('-?1', lambda s: s.startswith('1') or s.startswith('-1')),
]


def part_regex(tier):
  v = V()
  part = Part('regex')
  values = ['abc', 'abcd', 'xabc', 'b', 'ab', 'ba', '', 'a\nc', 'abc\n', 'aXc', 'aXc\n', 'aXc\n\n',
            123, -1, 1.5, None, 'zzz', 'x\nz', 'xz\nq', True, 'a', ' b']
  for pat, pred in REGEX_TABLE:
    obj = v.matches_regex(pat)
    desc = 'matches_regex(%r)' % pat
    for p in values:
      exp = bool(pred(str(p)))
      got, exc = truthy_call(obj, p)
      part.case((desc, repr(p)), {'validator': desc, 'value': repr(p), 'accepted': got})
      if got != exp:
        part.bad('call:%s:%s:exp=%s' % (cls_of(desc), fmt(p), exp), '%s(%r) accepted=%s (exc=%r) expected %s' % (desc, p, got, exc, exp),
                 {'validator': desc, 'value': repr(p)})
  return part


def part_percent(tier):
  v = V()
  part = Part('percent')
  exps = [100, -100, 8, -8, 0, 2.5, -0.5, 100.0]
  pcts = [0, 5, 12.5, 25, 50, 100, 150]
  margs = [None, 1, 2.5, 10, 50]
  if tier == 'thorough':
    exps += [1e300, -3, 7, 2**53 + 1, 0.1]
    pcts += [1, 33, 99.5, 200]
    margs += [0.5, 99]
  for e, p in itertools.product(exps, pcts + [-1, -0.5]):
    for m in margs:
      desc = 'WithinPercent(%r,%r,%r)' % (e, p, m)
      must_reject = p < 0 or (m is not None and m >= p)
      try:
        obj = v.WithinPercent(e, p, m)
        built = True
      except ValueError:
        built = False
      part.case(('ctor', desc))
      if must_reject and built:
        part.bad('ctor-accepts:%s' % fmt_desc(desc), '%s constructed (negative percent or marginal not below percent)' % desc,
                 {'ctor': desc})
      if not must_reject and not built:
        part.bad('ctor-rejects:%s' % fmt_desc(desc), '%s rejected although consistent' % desc, {'ctor': desc})
      if not built or must_reject:
        continue
      lo, hi = ref.percent_bounds(e, p)
      probes = [None, NAN, INF, -INF, 0, e, -e, 10**400, -10**400, 2**63]
      for b in (lo, hi):
        if ref.exactly_float(b):
          fb = float(b)
          probes += [fb, math.nextafter(fb, INF), math.nextafter(fb, -INF)]
          if b.denominator == 1:
            probes += [int(b), int(b) + 1, int(b) - 1]
        else:
          fb = float(b)
          probes += [fb * (1 + 1e-9) if fb else 1e-9, fb * (1 - 1e-9) if fb else -1e-9]
      mid = (lo + hi) / 2
      if ref.exactly_float(mid):
        probes.append(float(mid))
      if m is not None:
        mlo, mhi = ref.percent_bounds(e, m)
        for b in (mlo, mhi):
          if ref.exactly_float(b):
            probes += [float(b), math.nextafter(float(b), INF), math.nextafter(float(b), -INF)]
      objs = [(desc, obj)]
      if m is None:
        objs.append(('within_percent(%r,%r)' % (e, p), v.within_percent(e, p)))
      for d, o in objs:
        for x in probes:
          exp = ref.within_percent(e, p, x)
          got, exc = truthy_call(o, x)
          part.case((d, repr(x)), {'validator': d, 'value': repr(x), 'accepted': got})
          if exp is not None and got != exp:
            part.bad('call:%s:%s:exp=%s' % (d, fmt(x), exp), '%s(%r) accepted=%s (exc=%r); tolerance [%s, %s] says %s'
                     % (d, x, got, exc, lo, hi, exp), {'validator': d, 'value': repr(x)})
          if m is not None and exp is False:
            gm, _ = truthy_call(o.is_marginal, x)
            part.case((d, 'marg', repr(x)))
            if gm:
              part.bad('marginal-outside:%s:%s' % (d, fmt(x)),
                       '%s.is_marginal(%r) is true but the value lies outside the tolerance' % (d, x),
                       {'validator': d, 'value': repr(x)})
  return part


def part_lists(tier):
  v = V()
  part = Part('lists')
  ranges = [(0, 10, None, None), (0, 10, 2, 8), (None, 5, None, 4), (-3, None, None, None), (2.5, 2.5, None, None)]
  for lo, hi, mlo, mhi in ranges:
    obj = v.AllInRangeValidator(lo, hi, mlo, mhi)
    desc = 'all_in_range(%r,%r,%r,%r)' % (lo, hi, mlo, mhi)
    a = lo if lo is not None else hi - 4
    b = hi if hi is not None else lo + 4
    elems = [a - 1, a, (a + b) / 2, b, b + 1, NAN, INF, -INF, math.nextafter(float(b), INF),
             math.nextafter(float(a), -INF)]
    if mlo is not None:
      elems += [mlo, math.nextafter(float(mlo), INF)]
    if mhi is not None:
      elems += [mhi, math.nextafter(float(mhi), -INF)]
    maxlen = 3 if tier == 'thorough' else 2
    lists = [[None], [1, None]]
    for n in range(1, maxlen + 1):
      lists += [list(t) for t in itertools.product(elems, repeat=n)]
    for xs in lists:
      verdicts = [ref.in_range(lo, hi, x) for x in xs]
      exp = all(verdicts)
      got, exc = truthy_call(obj, xs)
      part.case((desc, repr(xs)), {'validator': desc, 'value': repr(xs), 'accepted': got})
      if got != exp:
        part.bad('call:%s:%s:exp=%s' % (desc, fmt(xs), exp), '%s(%r) accepted=%s (exc=%r) expected %s' % (desc, xs, got, exc, exp),
                 {'validator': desc, 'value': repr(xs)})
      if exp:
        expm = any(ref.range_marginal(lo, hi, mlo, mhi, x) for x in xs)
        gm, exc = truthy_call(obj.is_marginal, xs)
        part.case((desc, 'marg', repr(xs)))
        if gm != expm:
          part.bad('marginal:%s:%s:exp=%s' % (desc, fmt(xs), expm), '%s.is_marginal(%r)=%s (exc=%r) expected %s' % (desc, xs, gm, exc, expm),
                   {'validator': desc, 'value': repr(xs)})
  # all_equals
  for spec in [3, 2.5, True, 0]:
    obj = v.all_equals(spec)
    desc = 'all_equals(%r)' % (spec,)
    elems = [spec, spec + 1, NAN, math.nextafter(float(spec), INF), float(spec)]
    for n in (1, 2, 3):
      for xs in itertools.product(elems, repeat=n):
        xs = list(xs)
        exp = all(ref.in_range(spec, spec, x) for x in xs)
        got, exc = truthy_call(obj, xs)
        part.case((desc, repr(xs)))
        if got != exp:
          part.bad('call:%s:%s:exp=%s' % (desc, fmt(xs), exp), '%s(%r) accepted=%s (exc=%r) expected %s' % (desc, xs, got, exc, exp),
                   {'validator': desc, 'value': repr(xs)})
  for spec in ['abc', 'x']:
    obj = v.all_equals(spec)
    desc = 'all_equals(%r)' % (spec,)
    elems = [spec, spec + 'd', spec.upper(), '']
    for n in (1, 2, 3):
      for xs in itertools.product(elems, repeat=n):
        xs = list(xs)
        exp = all(x == spec for x in xs)
        got, exc = truthy_call(obj, xs)
        part.case((desc, repr(xs)), {'validator': desc, 'value': repr(xs), 'accepted': got})
        if got != exp:
          part.bad('call:%s:%s' % (desc, 'all-equal' if exp else 'not-all-equal'),
                   '%s(%r) accepted=%s (exc=%r) expected %s' % (desc, xs, got, exc, exp),
                   {'validator': desc, 'value': repr(xs)})
  for spec in [None, (1, 2)]:
    obj = v.all_equals(spec)
    desc = 'all_equals(%r)' % (spec,)
    elems = [spec, 0, (1, 3)]
    for n in (1, 2):
      for xs in itertools.product(elems, repeat=n):
        xs = list(xs)
        exp = all(x == spec for x in xs)
        got, exc = truthy_call(obj, xs)
        part.case((desc, repr(xs)))
        if got != exp:
          part.bad('call:%s:%s:exp=%s' % (desc, fmt(xs), exp), '%s(%r) accepted=%s (exc=%r) expected %s' % (desc, xs, got, exc, exp),
                   {'validator': desc, 'value': repr(xs)})
  return part


def part_pivot(tier):
  v = V()
  part = Part('pivot')
  subs = [('in_range(0,10)', v.in_range(0, 10), lambda x: ref.in_range(0, 10, x)),
          ("equals('a')", v.equals('a'), lambda x: ref.equals_str('a', x)),
          ('within_percent(100,10)', v.within_percent(100, 10), lambda x: ref.within_percent(100, 10, x)),
          # a sub-validator that looks at str(value): readings that are == but print differently are different readings
          ('matches_regex(digits)', v.matches_regex(r'\d+$'), lambda x: re.match(r'\d+$', str(x)) is not None)]
  vals = {'in_range(0,10)': [0, 10, 11, -1, NAN, 5], "equals('a')": ['a', 'b', 'a\n', 'aa'],
          'within_percent(100,10)': [90, 110, 111, 89.5, 100],
          'matches_regex(digits)': [1, 1.0, True, 0, 0.0, 10**16, 1e16]}
  maxlen = 4 if tier == 'thorough' else 3
  for name, sub, pred in subs:
    dp = v.dimension_pivot_validate(sub)
    ce = v.consistent_end_dimension_pivot_validate(sub)
    for n in range(1, maxlen + 1):
      for xs in itertools.product(vals[name], repeat=n):
        rows = [(i, 'c%d' % i, x) for i, x in enumerate(xs)]
        oks = [bool(pred(x)) for x in xs]
        exp = all(oks)
        got, exc = truthy_call(dp, rows)
        part.case(('dp', name, repr(xs)), {'validator': 'DimensionPivot(%s)' % name, 'rows': repr(rows), 'accepted': got})
        if got != exp:
          part.bad('dimension_pivot:%s:%r' % (name, xs), 'DimensionPivot(%s)(%r) accepted=%s (exc=%r) expected %s'
                   % (name, rows, got, exc, exp), {'validator': name, 'rows': repr(rows)})
        if True in oks:
          first = oks.index(True)
          exp2 = all(oks[first:])
        else:
          exp2 = False
        got2, exc = truthy_call(ce, rows)
        part.case(('ce', name, repr(xs)))
        if got2 != exp2:
          part.bad('consistent_end:%s:%r' % (name, xs), 'ConsistentEndDimensionPivot(%s)(%r) accepted=%s (exc=%r) expected %s'
                   % (name, rows, got2, exc, exp2), {'validator': name, 'rows': repr(rows)})
  return part


def safe_eq(a, b):
  """(a == b and not a != b) with exceptions reported as a string."""
  try:
    return bool(a == b) and not bool(a != b)
  except Exception as e:  # pylint: disable=broad-except
    return 'raised %s: %s' % (type(e).__name__, e)


def same_decisions(part, tag, a, b, probes, marginal=False):
  for p in probes:
    ra, rb = truthy_call(a, p), truthy_call(b, p)
    part.case((tag, repr(p)))
    if ra[0] != rb[0] or type(ra[1]) != type(rb[1]):  # pylint: disable=unidiomatic-typecheck
      part.bad('%s:decide:%r' % (tag, p), '%s: decisions differ on %r: %r vs %r' % (tag, p, ra, rb),
               {'case': tag, 'value': repr(p)})
    if marginal:
      ma, mb = truthy_call(a.is_marginal, p), truthy_call(b.is_marginal, p)
      if ma[0] != mb[0]:
        part.bad('%s:marginal:%r' % (tag, p), '%s: is_marginal differs on %r: %r vs %r' % (tag, p, ma, mb),
                 {'case': tag, 'value': repr(p)})
  if str(a) != str(b):
    part.bad('%s:str' % tag, '%s: prints differ: %r vs %r' % (tag, str(a), str(b)), {'case': tag})


def part_derive(tier):
  v = V()
  part = Part('derive')
  nums = [None, NAN, -1, 0, 1, 2, 3, 4.5, 5, 6, 9, 10, 11, 15, 19, 20, 21, 100, INF]
  templates = [
      ('t1', lambda: v.in_range('{lo}', '{hi}', type=int), lambda a: v.in_range(str(a['lo']), str(a['hi']), type=int)),
      ('t2', lambda: v.in_range('{lo}', 10), lambda a: v.in_range(str(a['lo']), 10)),
      ('t3', lambda: v.in_range('%(lo)s', '{hi}', marginal_minimum='{mlo}', type=float),
       lambda a: v.in_range(str(a['lo']), str(a['hi']), marginal_minimum=str(a['mlo']), type=float)),
      ('t4', lambda: v.in_range(1, '{hi}', marginal_maximum='{mhi}', type=int),
       lambda a: v.in_range(1, str(a['hi']), marginal_maximum=str(a['mhi']), type=int)),
  ]
  argsets = [dict(lo=1, hi=5, mlo=2, mhi=4), dict(lo=10, hi=20, mlo=15, mhi=19), dict(lo=0, hi=100, mlo=0, mhi=100),
             dict(lo=3, hi=3, mlo=3, mhi=3)]
  for name, mk, direct in templates:
    usable = argsets if name != 't2' else [a for a in argsets if a['lo'] <= 10]
    for order in itertools.permutations(range(len(usable)), 2 if tier == 'quick' else 3):
      t = mk()
      derived = []
      for i in order:
        d = t.with_args(**usable[i])
        # use it before deriving the next sibling (staleness needs a use in between)
        for p in (3, 15):
          truthy_call(d, p)
          truthy_call(d.is_marginal, p)
        str(d)
        derived.append((i, d))
      for i, d in derived:
        ref_v = direct(usable[i])
        tag = 'with_args:%s:%s:arg%d' % (name, ''.join(map(str, order)), i)
        same_decisions(part, tag, d, ref_v, nums, marginal=True)
        part.case((tag, 'eq'))
        r = safe_eq(d, ref_v)
        if r is not True:
          part.bad('with_args:%s:eq' % name, '%s: derived validator == directly constructed one gives %r (%s vs %s)' % (tag, r, d, ref_v),
                   {'case': tag})
      # the template itself must be unchanged by deriving
      t2 = mk()
      if str(t) != str(t2):
        part.bad('with_args:%s:template-mutated' % name, 'template prints %r after deriving, %r fresh' % (str(t), str(t2)),
                 {'case': name})
  # limits that are falsy (0, 0.0, False) survive with_args() like any other limit
  falsy = [(0, 10, None, None), (-5, 0, None, None), (0.0, 10, None, None), (False, 10, None, None), (-10, 10, 0, 5), (-10, 10, -5, 0),
           (0, None, None, None), (None, 0, None, None), (0, 0, None, None), (-0.0, 5, None, None)]
  for lims in falsy:
    for args in ({}, {'x': 1}, {'lo': 3, 'hi': 4}):
      base = v.InRange(*lims)
      tag = 'with_args:falsy:%r:%r' % (lims, sorted(args))
      try:
        d = base.with_args(**args)
      except Exception as e:  # pylint: disable=broad-except
        part.bad('with_args:falsy:raised', '%s: with_args raised %s: %s' % (tag, type(e).__name__, e), {'case': tag})
        continue
      same_decisions(part, tag, d, v.InRange(*lims), nums + [-11, -10, -6, -5, -0.5, 0.5], marginal=True)
  for spec in (0, 0.0, False, 5):
    for args in ({}, {'x': 1}):
      tag = 'with_args:falsy-equals:%r' % (spec,)
      part.case((tag, repr(sorted(args))))
      try:
        d = v.equals(spec).with_args(**args)
      except Exception as e:  # pylint: disable=broad-except
        part.bad('with_args:falsy:raised', '%s: with_args raised %s: %s' % (tag, type(e).__name__, e), {'case': tag})
        continue
      same_decisions(part, tag, d, v.equals(spec), [0, 0.0, False, '', None, 5, '5', 1])
  # deep copies and equality
  objs = [
      ('in_range(0,10,2,8)', lambda: v.in_range(0, 10, 2, 8), True),
      ("in_range('1','5',type=int)", lambda: v.in_range('1', '5', type=int), True),
      ('equals(3)', lambda: v.equals(3), True),
      ("equals('abc')", lambda: v.equals('abc'), False),
      ('equals(None)', lambda: v.equals(None), False),
      ("matches_regex('a.c')", lambda: v.matches_regex('a.c'), False),
      ('WithinPercent(100,10,5)', lambda: v.WithinPercent(100, 10, 5), True),
      ('within_percent(-8,25)', lambda: v.within_percent(-8, 25), False),
  ]
  strs = ['abc', 'abc\n', 'aXc', '', 'abcd', None]
  for name, mk, marg in objs:
    a = mk()
    # exercise before copying (lazy caches)
    for p in (3, 'abc'):
      truthy_call(a, p)
    b = copy.deepcopy(a)
    c = mk()
    probes = nums + strs + [90, 95, 96, 104, 105, 110, -6, -10, -8]
    same_decisions(part, 'deepcopy:%s' % name, a, b, probes, marginal=marg)
    same_decisions(part, 'rebuild:%s' % name, a, c, probes, marginal=marg)
    part.case(('eq', name))
    r1, r2 = safe_eq(a, b), safe_eq(a, c)
    if r1 is not True or r2 is not True:
      part.bad('eq:%s' % name, '%s: == with deep copy gives %r, with identically built validator %r' % (name, r1, r2), {'case': name})
  # inequality of different limits
  pairs = [(v.in_range(0, 10), v.in_range(0, 11)), (v.in_range(0, 10, 2, 8), v.in_range(0, 10, 3, 8)),
           (v.equals(3), v.equals(4)), (v.matches_regex('a'), v.matches_regex('b')),
           (v.WithinPercent(100, 10), v.WithinPercent(100, 11)), (v.WithinPercent(100, 10, 5), v.WithinPercent(100, 10, 4)),
           (v.equals(None), v.equals([1]))]
  for a, b in pairs:
    part.case(('ne', str(a), str(b)))
    if safe_eq(a, b) is not False:
      part.bad('ne:%s|%s' % (a, b), 'validators with different limits compare equal: %s vs %s' % (a, b), {})
  # a family of validators built from a small grid of limits and declared types: whenever two of them compare equal they
  # must decide identically on every probe (== may be False for validators that happen to agree, never the reverse)
  def hex_int(x):
    return int(str(x), 16)

  fam = []
  lims = [(10, 20), ('10', '20'), (16, 32), (10.0, 20.0), (10, None), (None, 20), ('10', None)]
  for lo, hi in lims:
    for typ in (None, int, float, hex_int):
      if typ is None and (isinstance(lo, str) or isinstance(hi, str)):
        continue
      try:
        fam.append(('in_range(%r,%r,type=%s)' % (lo, hi, getattr(typ, '__name__', None)), v.in_range(lo, hi, type=typ)))
      except Exception:  # pylint: disable=broad-except
        continue
  for spec in (10, '10', 16, 10.0):
    for typ in (None, int, hex_int, str):
      try:
        fam.append(('equals(%r,type=%s)' % (spec, getattr(typ, '__name__', None)), v.equals(spec, type=typ)))
      except Exception:  # pylint: disable=broad-except
        continue
  for exp, pct in ((100, 10), (100.0, 10), (100, 10.0), (110, 10), (100, 20)):
    fam.append(('within_percent(%r,%r)' % (exp, pct), v.within_percent(exp, pct)))
  fprobes = [9, 10, 15, 16, 20, 21, 26, 32, 33, 10.0, 16.0, '10', '16', 'a', 90, 99, 100, 110, 111, 120, 121, None]
  for (na, a), (nb, b) in itertools.combinations(fam, 2):
    part.case(('eq-family', na, nb))
    if safe_eq(a, b) is True:
      for pv in fprobes:
        ra, rb = truthy_call(a, pv), truthy_call(b, pv)
        if ra[0] != rb[0]:
          part.bad('eq-family:%s|%s' % (na, nb), '%s == %s but they decide differently on %r: %r vs %r' % (na, nb, pv, ra[0], rb[0]),
                   {'case': 'eq-family'})
          break
  return part


PARTS = [part_ranges, part_typed, part_equals, part_regex, part_percent, part_lists, part_pivot, part_derive]


def _run_part(item):
  idx, tier = item
  p = PARTS[idx](tier)
  return (p.name, p.evals, len(p.distinct), p.viols, p.samples)


def run(tier):
  rep = common.Report(PID, tier, 'exploration')
  res = common.pmap(_run_part, [(i, tier) for i in range(len(PARTS))], chunksize=1)
  for name, evals, distinct, viols, samples in res:
    rep.merge_violations(viols)
    rep.add_part(name, evaluations=evals, distinct_nontrivial=distinct, exhaustive=True, samples=samples)
  rep.assumptions = [
      'limits/probes come from finite grids (listed in vf/harness/c07.py); within a grid every combination is evaluated',
      '"accepts" = returns truthy; an exception counts as not accepting',
      'cases the statement leaves open (marginal limit beyond the opposite bound, percent bounds not representable '
      'as floats within 1e-12, is_marginal of a failing value) are not compared',
  ]
  return rep.finish(
      rule='exhaustive product of limit grid x probe set (each bound, its float neighbours, +-0.0, +-inf, NaN, None, '
           'huge ints) per validator; distinct = distinct (validator, probe) pairs')


def replay(art):
  print('C07 replay: re-evaluating the recorded case')
  print(art.get('what'))
  # The case is a pure function call; re-run the whole (fast) part and look for the signature.
  sig = art['signature']
  for i in range(len(PARTS)):
    p = PARTS[i]('thorough')
    for s, what, _ in p.viols:
      if s == sig:
        print('REPRODUCED', what)
        return 1
  print('not reproduced')
  return 0
