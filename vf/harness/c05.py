"""C05 phase result -> outcome mapping, repeat limit, run_if: decision-table enumeration.

One phase under test X in four positions (first phase; after a failed phase;
inside a subtest; in a group teardown), with every per-invocation behaviour
sequence up to the bound x measurement outcomes x diagnoser sets x subsets of
PhaseOptions.  Each program is executed on the real executor and compared
exactly with the reference table in vf/ref/refexec.py (Run.invoke / run_phase):
record outcome and result per invocation, recorded diagnosis results, number
of body invocations, diagnoser invocations, run_if handling.
"""
import itertools
import json

from vf import common, progs
from vf.harness import c01, c02
from vf.ref import refexec

PID = 'C05'
RETS = ['ok', 'continue', 'fail', 'fail_subtest', 'skip', 'stop', 'repeat', 'raise', 'bad', 'bad0', 'badstr', 'badrep', 'hang', 'sysexit', 'hangswallow']
MEAS_DIAG = [
    ('none', []), ('pass', []), ('fail', []), ('unset', []), ('marg', []), (['fail', 'pass'], []), (['unset', 'fail', 'pass'], []),
    ('none', ['A']), ('none', ['FA']), ('none', ['raise']), ('none', ['raise', 'FA']), ('none', ['none', 'A']),
    ('pass', ['FA']), ('fail', ['A']), ('fail', ['raise']), ('pass', ['A', 'FB']),
    ('dimunset', []), ('dimset', []), (['dimbad', 'dimgood'], []), (['dimgood', 'dimbad', 'dimgood'], []), ('none', ['AFlist']), ('none', ['AF1']), ('none', ['ABlist']), ('pass', ['AFlist']),
]
OPTS = [
    {}, {'repeat_limit': 1}, {'repeat_limit': 2}, {'repeat_limit': 4}, {'force_repeat': True}, {'repeat_on_measurement_fail': True},
    {'repeat_on_timeout': True}, {'stop_on_measurement_fail': True}, {'run_if': 'false'}, {'run_if': 'true'}, {'run_if': 'raise'},
    {'run_if': 'none'}, {'run_if': 'zero', 'force_repeat': True}, {'run_if': 'empty', 'repeat_on_measurement_fail': True},
    {'run_if': 'once'}, {'run_if': 'once', 'force_repeat': True}, {'run_if': 'once', 'repeat_on_measurement_fail': True},
]


def positions(x):
  ok = ['p', {'ret': ['ok']}]
  return [
      ('first', [x]),
      ('after-fail', [['p', {'ret': ['fail']}], x]),
      ('subtest', [['sub', [x, ['p', {'ret': ['ok']}]]], ['p', {'ret': ['ok']}]]),
      ('teardown', [['grp', [], [['p', {'ret': ['ok']}]], [x, ['p', {'ret': ['ok']}]]]]),
  ]


def ret_sequences(tier):
  seqs = [[r] for r in RETS]
  seqs += [[a, b] for a in ('repeat', 'hang', 'raise', 'ok', 'fail') for b in RETS]
  # slow attempts: each takes more than half of the phase timeout, so a deadline that is not per attempt expires
  seqs += [['slowok'], ['slowrepeat', 'slowok'], ['slowrepeat', 'slowrepeat', 'slowok'], ['slowrepeat', 'slowrepeat', 'hang']]
  if tier == 'thorough':
    seqs += [['slowrepeat', 'slowrepeat', c] for c in RETS]
    seqs += [[a, b, c] for a in ('repeat', 'hang') for b in ('repeat', 'hang', 'ok') for c in RETS]
    seqs += [['repeat', 'repeat', 'repeat', c] for c in ('ok', 'repeat', 'fail', 'raise')]
  return seqs


def opt_sets(tier):
  out = list(OPTS)
  if tier == 'thorough':
    for a, b in itertools.combinations(OPTS[1:], 2):
      if set(a) & set(b):
        continue
      d = dict(a)
      d.update(b)
      out.append(d)
  return out


def cases(tier):
  for rets in ret_sequences(tier):
    for meas, diag in MEAS_DIAG:
      if meas != 'none' and not all(r in ('ok', 'continue', 'repeat', 'hang', 'raise', 'fail') for r in rets):
        continue  # measurements matter only next to results that keep or could keep them relevant
      for opts in opt_sets(tier):
        if ('repeat_on_measurement_fail' in opts or 'stop_on_measurement_fail' in opts) and meas == 'none' and diag:
          continue
        beh = {'ret': rets}
        if meas != 'none':
          beh['meas'] = meas
        if diag:
          beh['diag'] = diag
        if opts:
          beh['opts'] = opts
        for allow in ((False, True) if 'unset' in json.dumps(meas) else (False,)):
          yield beh, {'allow_unset': True} if allow else {}


def _work(item):
  tier, start, step = item
  n, viols, outcomes, sample = 0, [], set(), None
  for i, (beh, settings) in enumerate(cases(tier)):
    if i % step != start:
      continue
    for pos, spec in positions(['p', beh]):
      n += 1
      diffs, got = c02.compare(spec, settings)
      xname = {'first': 'p0', 'after-fail': 'p1', 'subtest': 'p0', 'teardown': 'p1'}[pos]
      xrecs = tuple((p[1], p[2]) for p in got.get('phases', []) if p[0] == xname)
      outcomes.add(xrecs)
      if sample is None and i > 30:
        sample = {'phase': c01.behsig(beh), 'position': pos, 'records_of_phase': list(xrecs), 'outcome': got.get('outcome')}
      for kind, what in diffs:
        viols.append(('%s:%s:p(%s)%s' % (kind, pos, c01.behsig(beh), '+allow_unset' if settings else ''),
                      'position %s phase %s settings %s: %s' % (pos, c01.behsig(beh), settings, what),
                      {'spec': spec, 'settings': settings}))
  return n, viols, sorted(outcomes, key=repr), sample


def monitored_cases():
  """A phase wrapped by @monitors.monitors(...) maps what its body did to the same record as the bare phase (differential)."""
  from vf import htf as vhtf  # pylint: disable=g-import-not-at-top
  from openhtf.core import monitors  # pylint: disable=g-import-not-at-top
  bad, n = [], 0
  for ret in ('ok', 'continue', 'fail', 'skip', 'stop', 'repeat', 'raise', 'bad', 'bad0', 'badstr', 'badrep', 'sysexit'):
    obs = []
    for monitored in (False, True):
      ctx = progs.RunCtx()
      ph = progs.make_phase('p0', {'ret': [ret, 'ok']}, ctx)
      if monitored:
        ph = monitors.monitors('mon_p0', lambda test: 1, poll_interval_ms=20)(ph)
      tail = progs.make_phase('p1', {'ret': ['ok']}, ctx)
      res, recs, test, terr = vhtf.run_test([ph, tail])
      rec = recs[0]
      obs.append((rec.outcome.name, [(p.name, p.outcome.name, progs.result_kind(p.result)) for p in rec.phases], list(ctx.calls)))
    n += 1
    if obs[0] != obs[1]:
      bad.append(('monitored:%s' % ret, 'body behaviour %r: bare phase gives %r, the same phase with a monitor gives %r' % (ret, obs[0], obs[1]),
                  {'monitored': ret}))
  return n, bad


def abort_cases():
  """An invocation that is cut short by an operator abort still yields exactly one record (ERROR) -- also when the body is
  slow to die (stuck where the termination request cannot reach it) and the executor gives up waiting for it."""
  import threading, time  # pylint: disable=g-import-not-at-top,multiple-imports
  from vf import htf as vhtf  # pylint: disable=g-import-not-at-top
  L = progs.lib()
  h, conf = L['htf'], L['conf']
  bad, n = [], 0
  for kind in ('dies', 'deaf'):
    for position in ('plain', 'group-main'):
      n += 1
      state = {'over': False, 'calls': 0}
      holder = {}

      def x(test):
        state['calls'] += 1
        def later():
          time.sleep(0.02)          # (the executor is already waiting for the phase when the operator aborts)
          holder['test'].abort_from_sig_int()

        t = threading.Thread(target=later, name='aborter')
        t.daemon = True
        t.start()
        while not state['over']:
          try:
            time.sleep(0.0005)
          except BaseException:  # pylint: disable=broad-except
            if kind == 'dies':
              raise

      def prepare(test):
        pass

      def cleanup(test):
        pass

      def after(test):
        state['after'] = True

      nodes = [prepare, x, after] if position == 'plain' else [prepare, h.PhaseGroup(main=[x, after], teardown=[cleanup])]
      test = h.Test(*nodes)
      holder['test'] = test
      cap = vhtf.Capture()
      test.add_output_callbacks(cap)
      # as with the stock constants (poll every 3 s, give up after 2 s) the aborting side gives up waiting for the body
      # before the executor's next look at it
      conf.load(cancel_timeout_s=0.05)
      saved_poll = L['pe']._JOIN_TRY_INTERVAL_SECONDS  # pylint: disable=protected-access
      L['pe']._JOIN_TRY_INTERVAL_SECONDS = 0.3  # pylint: disable=protected-access
      try:
        test.execute()
      finally:
        state['over'] = True
        conf.reset()
        L['pe']._JOIN_TRY_INTERVAL_SECONDS = saved_poll  # pylint: disable=protected-access
        h.Test.HANDLED_SIGINT_ONCE = False
      rec = cap.records[0]
      xs = [(p.outcome.name, progs.result_kind(p.result)) for p in rec.phases if p.name == 'x']
      tag = 'abort:%s:%s' % (kind, position)
      if state['calls'] != 1 or len(xs) != 1:
        bad.append((tag + ':records', 'body invoked %d time(s), %d phase record(s) for it (records %r)'
                    % (state['calls'], len(xs), [(p.name, p.outcome.name) for p in rec.phases]), {'abort_case': [kind, position]}))
      elif xs[0][0] != 'ERROR':
        bad.append((tag + ':outcome', 'aborted invocation recorded as %r' % (xs[0],), {'abort_case': [kind, position]}))
      if rec.outcome.name != 'ABORTED' or state.get('after'):
        bad.append((tag + ':run', 'run outcome %s, phase after the aborted one ran: %r' % (rec.outcome.name, bool(state.get('after'))),
                    {'abort_case': [kind, position]}))
      if position == 'group-main' and not any(p.name == 'cleanup' for p in rec.phases):
        bad.append((tag + ':teardown', 'teardown phase has no record', {'abort_case': [kind, position]}))
  return n, bad


def run(tier):
  rep = common.Report(PID, tier, 'model_checking')
  na, bada = abort_cases()
  rep.merge_violations(bada)
  rep.add_part('aborted invocations', states=na, transitions=na, traces_validated_against_impl=na, evaluations=na,
               distinct_nontrivial=na, exhaustive=True, samples=[{'bodies': ['dies at once', 'slow to die'], 'positions': ['plain', 'group main']}])
  nm, badm = monitored_cases()
  rep.merge_violations(badm)
  rep.add_part('monitored phases (differential)', states=nm, transitions=nm, traces_validated_against_impl=2 * nm, evaluations=nm,
               distinct_nontrivial=nm, exhaustive=True, samples=[{'behaviours': 10, 'oracle': 'record of the bare phase'}])
  step = common.NCPU * 6
  res = common.pmap(_work, common.rotate([(tier, s, step) for s in range(step)]), chunksize=1)
  n = sum(r[0] for r in res)
  outcomes, samples = set(), []
  for r in res:
    rep.merge_violations(r[1])
    outcomes.update(map(tuple, r[2]))
    if r[3] and len(samples) < 3:
      samples.append(r[3])
  rep.add_part('phase-table', states=n, transitions=n, traces_validated_against_impl=n,
               evaluations=n, distinct_nontrivial=len(outcomes), exhaustive=True, samples=samples)
  rep.assumptions = [
      'behaviour sequences: all single results, all pairs starting with repeat/hang/raise/ok/fail (triples and 4-sequences in thorough); '
      'options: none and every single option (all compatible pairs in thorough); 16 measurement x diagnoser combinations',
      'timeouts via the virtual deadline clock; distinct_nontrivial = distinct per-invocation (outcome, result) record sequences of the phase under test',
  ]
  return rep.finish(rule='every case executed in 4 positions on the real executor and compared exactly with the reference decision table')


def replay(art):
  r = art['replay']
  if 'abort_case' in r:
    n, bad = abort_cases()
    hit = [b for b in bad if b[2]['abort_case'] == r['abort_case']]
    for b in hit:
      print('VIOLATED', b[0], b[1])
    return 1 if hit else 0
  if 'monitored' in r:
    n, bad = monitored_cases()
    hit = [b for b in bad if b[2]['monitored'] == r['monitored']]
    for b in hit:
      print('VIOLATED', b[0], b[1])
    return 1 if hit else 0
  diffs, got = c02.compare(r['spec'], r['settings'])
  print('phases', [(p[0], p[1], p[2]) for p in got.get('phases', [])], 'calls', got.get('calls'))
  for d in diffs:
    print('MISMATCH', d)
  return 1 if diffs else 0
