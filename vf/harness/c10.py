"""C10 serialized (base-type / JSON) view always equals the in-memory record.

histories  all operation histories up to the bound inside one real phase over
           {set scalar (with/without transform), override, set / override a
           coordinate of a dimensioned measurement with transform, attach, log,
           read the live PhaseState/TestState views}; at every read and at the
           end the incremental (cached) rendering is compared with a from-scratch
           rendering of the public attributes (vf/ref/render.py); the JSON written
           by OutputToJSON must be strict and decode to the rendering.
shapes     C02-style programs: every record list of the TestRecord (phases,
           subtests, branches, checkpoints, diagnoses, log_records) must be
           represented, with equal lengths and names.
values     every value built with <= 2 constructors from the stated family as a
           scalar and as a dimensioned value: strict JSON, same structure.
"""
import base64
import enum
import io
import itertools
import json
import math

from vf import common, htf, progs
from vf.harness import c02
from vf.ref import render

PID = 'C10'
NAN = float('nan')
INF = float('inf')


class Color(enum.Enum):
  RED = 1
  BLUE = 'b'


def strict_loads(text):
  def bad_const(c):
    raise ValueError('non-strict JSON constant %s' % c)
  return json.loads(text, parse_constant=bad_const)


# ---- histories -----------------------------------------------------------------
OPS = [
    ['s', 3], ['s', 60], ['p', 1.5], ['p', NAN],
    ['d', 0, 1], ['d', 1, 2], ['d', 0, 100], ['t', 0, 5], ['t', 0, 6],
    ['attach', 'a.bin', b'\x00\xff\x01'], ['attach', 'b.txt', b''], ['log'], ['read'],
    ['c', 3], ['c', 9],   # a measurement whose validator was switched on by a diagnosis of an earlier phase
    ['tbad'],   # a coordinate that cannot be a key (rejected: must leave no trace in any rendering)
    ['getatt', 'a.bin'],    # the phase looks at (a copy of) an attachment and drops the copy again
    ['attach', 'big.bin', bytes(range(256)) * 28],     # 7 KiB: one JSON string token of more than 8 KiB once inlined
    ['pl'],     # publish a mutable list: first time [0.0]; later: append to the SAME object and publish it again
]


def opsig(op):
  if op[0] in ('s', 'p', 'c'):
    return '%s=%s' % (op[0], 'nan' if isinstance(op[1], float) and op[1] != op[1] else op[1])
  if op[0] in ('d', 't'):
    return '%s[%s]=%s' % (op[0], op[1], op[2])
  if op[0] == 'attach':
    return 'attach(%s)' % op[1]
  if op[0] == 'getatt':
    return 'get_attachment(%s)' % op[1]
  return op[0]


def compare_view(view, phase_state, where):
  """view: PhaseState.as_base_types() result (or the phase dict of a finished record)."""
  bad = []
  for name, m in phase_state.measurements.items():
    exp = render.measurement(m)
    got = view['measurements'].get(name)
    if got is None:
      bad.append(('missing-measurement', '%s: measurement %s missing from the rendering' % (where, name)))
      continue
    for key in ('name', 'outcome', 'measured_value'):
      if key == 'measured_value' and 'measured_value' not in exp:
        if 'measured_value' in got:
          bad.append(('value', '%s: %s rendered value %r but nothing is set' % (where, name, got['measured_value'])))
        continue
      if key not in got or not render.same(got[key], exp[key]):
        kind = 'outcome' if key == 'outcome' else ('value-dimensioned' if m.dimensions else 'value')
        bad.append((kind, '%s: %s.%s rendered %r, in-memory %r' % (where, name, key, got.get(key, '<absent>'), exp[key])))
  atts = phase_state.attachments
  if set(view['attachments']) != set(atts):
    bad.append(('attachments', '%s: rendered attachments %r, in-memory %r' % (where, sorted(view['attachments']), sorted(atts))))
  for n, a in atts.items():
    r = view['attachments'].get(n)
    if r is not None and not isinstance(r, dict):
      r = r._asdict()
    if r is not None and (r.get('sha1') != a.sha1 or r.get('mimetype') != a.mimetype):
      bad.append(('attachment-content', '%s: attachment %s rendered %r, in-memory sha1 %s' % (where, n, r, a.sha1)))
  return bad


def run_history(hist):
  L = progs.lib()
  h = L['htf']
  from openhtf.util import validators as v  # pylint: disable=g-import-not-at-top
  from openhtf.output.callbacks import json_factory  # pylint: disable=g-import-not-at-top
  bad = []
  reads = []

  shared = []
  seen_att = []

  def body(state):
    test = state.test_api
    ps = state.running_phase_state
    for i, op in enumerate(hist):
      if op[0] == 'pl':
        shared.append(len(shared) * 1.5)
        test.measurements.p = shared
      elif op[0] == 'c':
        test.measurements.c = op[1]
      elif op[0] == 'tbad':
        try:
          test.measurements.t[[0]] = 5
        except Exception:  # pylint: disable=broad-except
          pass
      elif op[0] == 's':
        test.measurements.s = op[1]
      elif op[0] == 'p':
        test.measurements.p = op[1]
      elif op[0] == 'd':
        test.measurements.d[op[1]] = op[2]
      elif op[0] == 't':
        test.measurements.t[op[1]] = op[2]
      elif op[0] == 'attach':
        try:
          test.attach(op[1], op[2])
        except Exception:  # pylint: disable=broad-except
          pass   # duplicate name: rejected, must change nothing
      elif op[0] == 'getatt':
        import gc  # pylint: disable=g-import-not-at-top
        a = test.get_attachment(op[1])
        if a is not None:
          seen_att.append((op[1], a.data))
        del a
        gc.collect()
      elif op[0] == 'log':
        test.logger.info('log line %d', i)
      elif op[0] == 'read':
        view = ps.as_base_types()
        where = 'live PhaseState view after %s' % '; '.join(opsig(o) for o in hist[:i])
        bad.extend(compare_view(view, ps, where))
        tview = state.as_base_types()
        if tview['running_phase_state'] is None:
          bad.append(('live-test-view', '%s: TestState view has no running phase' % where))
        else:
          bad.extend(compare_view(tview['running_phase_state'], ps, where.replace('PhaseState', 'TestState')))
        n_logs = len(state.test_record.log_records)
        if len(tview['test_record']['log_records']) != n_logs:
          bad.append(('live-logs', '%s: %d log records rendered, %d in memory' % (where, len(tview['test_record']['log_records']), n_logs)))
        reads.append(i)

  body.__name__ = 'hphase'
  ph = h.PhaseOptions(name='hphase', requires_state=True)(body)
  ph = h.measures(
      h.Measurement('s').with_transform(lambda x: x * 2).in_range(0, 100),
      h.Measurement('p'),
      h.Measurement('d').with_dimensions('x').with_transform(lambda x: x * 2).with_validator(
          v.dimension_pivot_validate(v.in_range(0, 100))),
      h.Measurement('t').with_dimensions('x'),
      h.Measurement('c').validate_on({L['R'].A: v.in_range(0, 4)}))(ph)
  pre = progs.make_phase('pre', {'ret': ['ok'], 'diag': ['A']}, progs.RunCtx())

  def pre_attach_body(test):
    test.attach('pre.bin', b'PRE')        # an earlier phase's attachment: never part of a later phase's live view

  pre_attach_body.__name__ = 'preattach'
  pre_attach = h.PhaseOptions(name='preattach')(pre_attach_body)
  out = io.BytesIO()
  # the record is written twice: first to a file named through a pattern, then to a file object
  pattern, pdir = pattern_path()
  res, recs, test, terr = htf.run_test([pre, pre_attach, ph], callbacks=[json_factory.OutputToJSON(pattern, sort_keys=True),
                                                              json_factory.OutputToJSON(out, sort_keys=True), snap_cb])
  rec = recs[0]
  bad.extend(check_final(rec, out.getvalue().decode()))
  named = take_pattern_output(pdir)
  if len(named) != 1:
    bad.append(('json-pattern-files', 'output through a file-name pattern left %d files' % len(named)))
  elif named[0] != out.getvalue().decode():
    try:
      diff = first_diff(strict_loads(named[0]), strict_loads(out.getvalue().decode()))
    except ValueError as e:
      diff = 'not strict JSON: %s' % e
    if diff:
      bad.append(('json-pattern-differs', 'the JSON written through a file-name pattern differs from the one written to a file object at %s' % diff))
  return bad, {'outcome': rec.outcome.name, 'reads': reads}


_TMP = {}


def pattern_path():
  """(pattern, path): a file-name pattern for OutputToJSON and the file it resolves to in this process."""
  import os, tempfile  # pylint: disable=g-import-not-at-top,multiple-imports
  if 'd' not in _TMP or _TMP.get('pid') != os.getpid():
    _TMP['d'], _TMP['pid'] = tempfile.mkdtemp(prefix='vf-c10-'), os.getpid()
    import atexit, shutil  # pylint: disable=g-import-not-at-top,multiple-imports
    atexit.register(shutil.rmtree, _TMP['d'], True)
  return os.path.join(_TMP['d'], '{dut_id}.{outcome}.json'), _TMP['d']


def take_pattern_output(d):
  import os  # pylint: disable=g-import-not-at-top
  texts = []
  for fn in sorted(os.listdir(d)):
    with open(os.path.join(d, fn)) as f:
      texts.append(f.read())
    os.remove(os.path.join(d, fn))
  return texts


class FakePS(object):
  """Adapter so compare_view can be applied to a finished PhaseRecord."""

  def __init__(self, p):
    self.measurements = p.measurements or {}
    self.attachments = p.attachments


SNAP = {}


def snap_cb(rec):
  """Output callback placed right after OutputToJSON: the rendering as of that moment."""
  import copy  # pylint: disable=g-import-not-at-top
  SNAP['r'] = copy.deepcopy(rec.as_base_types())


def check_final(rec, json_text):
  bad = []
  r = SNAP.pop('r', None) or rec.as_base_types()
  for key in ('phases', 'subtests', 'branches', 'checkpoints', 'diagnoses', 'log_records'):
    mem = getattr(rec, key)
    if key == 'log_records':
      mem = mem[:len(r.get(key, mem))] if len(r.get(key, mem)) <= len(mem) else mem  # logs keep arriving until close()
    if key not in r:
      if mem:
        bad.append(('list-missing:%s' % key, 'TestRecord.%s has %d entries but the rendering has no %r key' % (key, len(mem), key)))
      continue
    if len(r[key]) != len(mem):
      bad.append(('list-length:%s' % key, 'rendering has %d %s, record has %d' % (len(r[key]), key, len(mem))))
  import attr as _attr  # pylint: disable=g-import-not-at-top
  for f in _attr.fields(type(rec)):
    if not f.name.startswith('_') and f.name not in r:
      bad.append(('record-field-missing:%s' % f.name, 'TestRecord.%s is not represented in the rendering (keys %r)' % (f.name, sorted(r))))
  for i, p in enumerate(rec.phases):
    if i < len(r.get('phases', [])):
      rp = r['phases'][i]
      if rp.get('name') != p.name or rp.get('outcome') != (p.outcome.name if p.outcome else None):
        bad.append(('phase-fields', 'phase %d rendered name/outcome %r/%r, in-memory %r/%r'
                    % (i, rp.get('name'), rp.get('outcome'), p.name, p.outcome)))
      bad.extend(compare_view(rp, FakePS(p), 'final record, phase %s' % p.name))
  import attr  # pylint: disable=g-import-not-at-top
  for key in ('subtests', 'branches', 'checkpoints'):
    if key in r:
      for rr, mm in zip(r[key], getattr(rec, key)):
        if rr.get('name') != mm.name:
          bad.append(('%s-name' % key, 'rendered %s name %r, in-memory %r' % (key, rr.get('name'), mm.name)))
        # every public field of the in-memory record, rendered from scratch
        for f in attr.fields(type(mm)):
          if f.name.startswith('_'):
            continue
          val = getattr(mm, f.name)
          import enum  # pylint: disable=g-import-not-at-top
          if not (val is None or isinstance(val, (bool, int, float, str, enum.Enum))):
            continue      # structured fields (phase outcome, condition objects) have no scratch rendering here
          exp = render.base(val)
          if f.name not in rr or not render.same(render.jsonish(rr[f.name]), render.jsonish(exp)):
            bad.append(('%s-field:%s' % (key, f.name), 'rendered %s %r has %s=%r, in-memory %r'
                        % (key, mm.name, f.name, rr.get(f.name, '<absent>'), exp)))
  if json_text is not None:
    try:
      decoded = strict_loads(json_text)
    except ValueError as e:
      bad.append(('json-not-strict', 'OutputToJSON produced non-strict JSON: %s' % e))
      return bad
    expect = render.jsonish(r)
    # attachments are inlined as base64 in the JSON
    for i, p in enumerate(rec.phases):
      for n, a in p.attachments.items():
        got = decoded['phases'][i]['attachments'].get(n, {})
        try:
          data = base64.standard_b64decode(got.get('data', '')) if 'data' in got else None
        except Exception:  # pylint: disable=broad-except
          data = None
        if data != a.data:
          bad.append(('attachment-roundtrip', 'attachment %s of phase %s decodes to %r, in-memory %r' % (n, p.name, data, a.data)))
        expect['phases'][i]['attachments'][n] = got
    if not render.same(decoded, expect):
      diff = first_diff(decoded, expect)
      bad.append(('json-differs', 'JSON decodes to a different structure than the rendering at %s' % (diff,)))
  return bad


def first_diff(a, b, path=''):
  if isinstance(a, dict) and isinstance(b, dict):
    for k in sorted(set(a) | set(b)):
      if k not in a or k not in b:
        return '%s/%s (only in %s)' % (path, k, 'json' if k in a else 'rendering')
      d = first_diff(a[k], b[k], '%s/%s' % (path, k))
      if d:
        return d
    return None
  if isinstance(a, list) and isinstance(b, list):
    if len(a) != len(b):
      return '%s (lengths %d vs %d)' % (path, len(a), len(b))
    for i, (x, y) in enumerate(zip(a, b)):
      d = first_diff(x, y, '%s[%d]' % (path, i))
      if d:
        return d
    return None
  if not render.same(a, b):
    return '%s: %r vs %r' % (path, a, b)
  return None


def _hist_work(item):
  tier, start, step = item
  depth = 3 if tier == 'quick' else 4
  n, viols, outcomes, sample = 0, [], set(), None
  i = -1
  for d in range(1, depth + 1):
    for hist in itertools.product(OPS, repeat=d):
      i += 1
      if i % step != start:
        continue
      hist = list(hist)
      # a read is only interesting after something happened; skip leading reads and double reads
      if hist[0][0] == 'read' or any(a[0] == 'read' and b[0] == 'read' for a, b in zip(hist, hist[1:])):
        continue
      n += 1
      bad, info = run_history(hist)
      outcomes.add((info['outcome'], tuple(info['reads']), tuple(sorted({k for k, _ in bad}))))
      if sample is None and d == 3:
        sample = {'history': [opsig(o) for o in hist], 'outcome': info['outcome']}
      for kind, what in bad:
        where = 'live' if what.startswith('live') else 'final'
        viols.append(('histories:%s:%s:%s' % (kind, where, '; '.join(opsig(o) for o in hist)),
                      'history [%s]: %s' % ('; '.join(opsig(o) for o in hist), what),
                      {'part': 'histories', 'hist': [[x if not isinstance(x, bytes) else {'b': x.hex()} for x in o] for o in hist]}))
  return n, viols, len(outcomes), sample


# ---- shapes -----------------------------------------------------------------------
def _shape_work(item):
  tier, start, step = item
  from openhtf.output.callbacks import json_factory  # pylint: disable=g-import-not-at-top
  n, viols, outcomes = 0, [], set()
  kinds = ['c', 'grp', 'sub', 'br']
  leaves = c02.LEAVES_SMALL + [{'ret': ['ok'], 'diag': ['A']}, {'ret': ['ok'], 'meas': 'fail'}]
  i = -1
  for k, depth in ((1, 2), (2, 1)):
    for shape in progs.shapes(k, depth, kinds):
      for spec in progs.fill(shape, leaves, c02.CKPT_SMALL, c02.BR_SMALL):
        i += 1
        if i % step != start:
          continue
        n += 1
        out = io.BytesIO()
        obs = progs.run_spec(spec, extra_callbacks=[json_factory.OutputToJSON(out), snap_cb], keep_record=True)
        rec = obs['record']
        bad = check_final(rec, out.getvalue().decode())
        outcomes.add((len(rec.phases), len(rec.subtests), len(rec.branches), len(rec.checkpoints), len(rec.diagnoses)))
        for kind, what in bad:
          viols.append(('shapes:%s' % kind, 'program %s: %s' % (c02.skeleton(spec), what), {'part': 'shapes', 'spec': spec}))
  return n, viols, len(outcomes), None


# ---- attachments across phase records -------------------------------------------------
def _attach_work(item):
  tier, start, step = item
  L = progs.lib()
  h = L['htf']
  from openhtf.output.callbacks import json_factory  # pylint: disable=g-import-not-at-top
  contents = [b'AAAA', b'BBBB', b'CC', None]
  n, viols, outcomes = 0, [], set()
  for i, combo in enumerate(itertools.product(contents, repeat=3)):
    if i % step != start:
      continue
    for names in (('adc.bin', 'adc.bin', 'adc.bin'), ('adc.bin', 'adc.bin', 'run.txt')):
      n += 1
      counter = {'x': 0}

      def x(test):
        k = counter['x']
        counter['x'] += 1
        if combo[k] is not None:
          test.attach(names[k], combo[k])
        return h.PhaseResult.REPEAT if k == 0 else None

      def y(test):
        if combo[2] is not None:
          test.attach(names[2], combo[2])

      out = io.BytesIO()
      res, recs, test, terr = htf.run_test([h.PhaseOptions(name='x')(x), h.PhaseOptions(name='y')(y)],
                                           callbacks=[json_factory.OutputToJSON(out), snap_cb])
      bad = check_final(recs[0], out.getvalue().decode())
      outcomes.add(tuple(c is not None for c in combo))
      for kind, what in bad:
        viols.append(('attachments:%s:%s' % (kind, '/'.join('-' if c is None else c.decode() for c in combo)),
                      'attachments %r named %r over records x,x,y: %s' % (combo, names, what), {'part': 'attachments'}))
  if start == 0:
    # sizes around 64 KiB (and a multiple of it): inlined attachments still decode byte for byte
    for size in (65535, 65536, 65537, 131072, 200000):
      n += 1
      blob = bytes((i * 7 + size) % 251 for i in range(size))

      def big(test):
        test.attach('big.bin', blob)

      out = io.BytesIO()
      res, recs, test, terr = htf.run_test([h.PhaseOptions(name='big')(big)], callbacks=[json_factory.OutputToJSON(out), snap_cb])
      for kind, what in check_final(recs[0], out.getvalue().decode()):
        viols.append(('attachments:%s:size=%d' % (kind, size), 'one attachment of %d bytes: %s' % (size, what[:300]), {'part': 'attachments'}))
  return n, viols, len(outcomes), {'contents_per_record': [repr(c) for c in contents]}


# ---- values --------------------------------------------------------------------------
def value_family(tier):
  atoms = [None, True, 0, 2**70, 1.5, NAN, INF, -INF, 'é', Color.RED, -0.0, '']
  vals = list(atoms)
  for a in atoms:
    vals += [[a], (a,), {'k': a}]
  for a, b in itertools.product(atoms[:9], repeat=2):
    vals += [[a, b], (a, b)]
  if tier == 'thorough':
    for a in atoms:
      vals += [[[a]], ([a],), {'k': [a]}, {'k': {'j': a}}, [(a, a)], [{'k': a}]]
  return vals


def run_value(val):
  L = progs.lib()
  h = L['htf']
  from openhtf.output.callbacks import json_factory  # pylint: disable=g-import-not-at-top

  def body(test):
    test.measurements.p = val
    test.measurements.d[0] = val
    test.measurements.d[1] = val

  body.__name__ = 'vphase'
  ph = h.measures(h.Measurement('p'), h.Measurement('d').with_dimensions('x'))(h.PhaseOptions(name='vphase')(body))
  bad = []
  for allow_nan in (False, True):
    out = io.BytesIO()
    res, recs, test, terr = htf.run_test([ph], callbacks=[json_factory.OutputToJSON(out, allow_nan=allow_nan), snap_cb])
    rec = recs[0]
    text = out.getvalue().decode()
    if not text:
      bad.append(('json-empty', 'OutputToJSON(allow_nan=%s) wrote nothing for value %r' % (allow_nan, val)))
      continue
    if allow_nan:
      try:
        json.loads(text)
      except ValueError as e:
        bad.append(('json-invalid', 'allow_nan=True output does not parse: %s' % e))
      continue
    bad.extend(check_final(rec, text))
    decoded = None
    try:
      decoded = strict_loads(text)
    except ValueError:
      pass
    if decoded is not None:
      mp = decoded['phases'][0]['measurements']
      exp = render.jsonish(render.base(val))
      if not render.same(mp['p'].get('measured_value'), exp):
        bad.append(('value-roundtrip', 'scalar value %r decodes from JSON as %r, expected %r' % (val, mp['p'].get('measured_value'), exp)))
      expd = [[0, exp], [1, exp]]
      if not render.same(mp['d'].get('measured_value'), expd):
        bad.append(('value-roundtrip-dimensioned', 'dimensioned value %r decodes as %r, expected %r' % (val, mp['d'].get('measured_value'), expd)))
  return bad


def _value_work(item):
  tier, start, step = item
  n, viols = 0, []
  shapes = set()
  for i, val in enumerate(value_family(tier)):
    if i % step != start:
      continue
    n += 1
    bad = run_value(val)
    shapes.add(type(val).__name__ + ':' + ','.join(type(x).__name__ for x in (val if isinstance(val, (list, tuple)) else [val])))
    for kind, what in bad:
      viols.append(('values:%s:%s' % (kind, repr(val)[:60]), 'value %r: %s' % (val, what), {'part': 'values', 'value': repr(val)}))
  return n, viols, len(shapes), None


def run(tier):
  rep = common.Report(PID, tier, 'model_checking')
  progs.lib()
  step = common.NCPU * 2
  for name, fn in (('histories', _hist_work), ('shapes', _shape_work), ('attachments', _attach_work), ('values', _value_work)):
    res = common.pmap(fn, common.rotate([(tier, s, step) for s in range(step)]), chunksize=1)
    n = sum(r[0] for r in res)
    samples = [r[3] for r in res if r[3]][:2]
    for r in res:
      rep.merge_violations(r[1])
    rep.add_part(name, states=n, transitions=n, traces_validated_against_impl=n, evaluations=n,
                 distinct_nontrivial=sum(r[2] for r in res), exhaustive=True,
                 samples=samples or [{'part': name, 'cases': n}])
  from vf.harness import c10_sched  # pylint: disable=g-import-not-at-top
  c10_sched.run_into(rep, tier)
  rep.assumptions = [
      'histories: all sequences up to length 3 (4 in thorough) over 15 operations inside one real phase; reads of the live view are '
      'operations of the history (their position matters for cache coherence)',
      'the from-scratch renderer (vf/ref/render.py) reads only public attributes and never a cache',
      'station API itself (tornado) is not importable here; its data source, TestState.as_base_types(), is what is checked',
  ]
  return rep.finish(rule='states = executed histories / programs / values; each compared cached-vs-scratch and JSON-vs-rendering')


def replay(art):
  r = art['replay']
  if r.get('part') == 'schedules':
    from vf.harness import c10_sched  # pylint: disable=g-import-not-at-top
    return c10_sched.replay(r)
  if r['part'] == 'histories':
    hist = [[bytes.fromhex(x['b']) if isinstance(x, dict) else x for x in o] for o in r['hist']]
    for o in hist:
      if o[0] == 'p' and isinstance(o[1], str):
        o[1] = NAN
    bad, info = run_history(hist)
  elif r['part'] == 'shapes':
    from openhtf.output.callbacks import json_factory  # pylint: disable=g-import-not-at-top
    out = io.BytesIO()
    obs = progs.run_spec(r['spec'], extra_callbacks=[json_factory.OutputToJSON(out), snap_cb], keep_record=True)
    bad = check_final(obs['record'], out.getvalue().decode())
  else:
    print('values part: re-run ./check C10 (value %s)' % r['value'])
    return 0
  for b in bad:
    print('VIOLATED', b)
  return 1 if bad else 0
