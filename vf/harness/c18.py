"""C18 state subscriptions never lose an update: stateless schedule exploration.

harness P  a SubscribableStateMixin subclass with a counter; 1-2 watcher threads
           (final-read style and snapshot-then-wait loop style) and 1-2 updater
           threads doing "mutate; notify_update()" twice each.  Every source line
           of the mixin (asdict_with_event / notify_update) and every operation on
           its lock and events is a scheduling point; all interleavings up to the
           preemption bound are executed on the real code.
harness R  a watcher thread looping snapshot-then-wait on Test.state during a
           real Test.execute() (2 phases, a measurement, a log line).
"""
import threading
import time

from vf import common, htf
from vf.sched import explore, runtime

PID = 'C18'


def _mixin():
  htf.init()
  from openhtf import util  # pylint: disable=g-import-not-at-top
  return util


_OBJ = {}


def obj_class():
  if 'cls' in _OBJ:
    return _OBJ['cls']
  util = _mixin()

  class Counter(util.SubscribableStateMixin):

    def __init__(self):
      super(Counter, self).__init__()
      self.value = 0

    def _asdict(self):
      return {'value': self.value}

  _OBJ['cls'] = Counter
  return Counter


def scenario_p(nw, nu, style, updates=2):
  """Returns fn(sched) -> result dict."""
  Counter = obj_class()
  final_value = nu * updates

  def fn(sched):
    obj = Counter()
    res = {'watchers': {}, 'blocked_forever': []}
    updaters_done = threading.Event()

    def updater(u):
      for _ in range(updates):
        obj.value += 1
        runtime.vlog('upd', u, obj.value)
        obj.notify_update()
        runtime.vlog('notified', u)

    def watcher_final(w):
      state, ev = obj.asdict_with_event()
      runtime.vlog('snap', w, state['value'])
      updaters_done.wait()
      first = ev.is_set()
      runtime.yield_point('between-reads')
      second = ev.is_set()
      res['watchers'][w] = {'snapshot': state['value'], 'set': first, 'set_again': second}

    def watcher_loop(w):
      seen = []
      while True:
        state, ev = obj.asdict_with_event()
        seen.append(state['value'])
        if state['value'] >= final_value:
          break
        ev.wait()          # blocks forever if the update was lost -> deadlock is reported
      res['watchers'][w] = {'seen': seen}

    ws = [threading.Thread(target=watcher_final if style == 'final' else watcher_loop, args=(i,), name='w%d' % i) for i in range(nw)]
    us = [threading.Thread(target=updater, args=(i,), name='u%d' % i) for i in range(nu)]
    for t in ws + us:
      t.start()
    for t in us:
      t.join()
    updaters_done.set()
    for t in ws:
      t.join()
    res['final'] = obj.value
    return res

  return fn


def execute_p(cfg, choices):
  nw, nu, style = cfg
  util = _mixin()
  Counter = obj_class()
  sched, value = explore.run_under_scheduler(
      scenario_p(nw, nu, style), choices,
      focus_targets=[util.SubscribableStateMixin, Counter],
      focus_files=('openhtf/util/__init__.py',), max_steps=5000)
  result = {'value': value if isinstance(value, dict) else repr(value), 'failure': repr(sched.failure) if sched.failure else None,
            'events': list(sched.events)}
  if isinstance(value, dict):
    result['outcome_key'] = (tuple(sorted((w, tuple(sorted(d.items()))) if 'seen' not in d else (w, tuple(d['seen']))
                                          for w, d in value['watchers'].items())), value.get('final'))
  else:
    result['outcome_key'] = ('failure', type(sched.failure).__name__ if sched.failure else repr(value)[:80])
  return explore.Exec(list(choices), sched.points, result, sched.failure, sched.steps, len(sched.trace), sched.state_hashes)


def check_p(cfg):
  nw, nu, style = cfg

  def check(ex):
    out = []
    r = ex.result
    rep = {'part': 'P', 'cfg': list(cfg), 'choices': ex.choices}
    if ex.failure is not None:
      kind = type(ex.failure).__name__
      out.append(('P:%s:%s:%dw%du' % (kind, style, nw, nu),
                  'watchers=%d updaters=%d style=%s: %s (a watcher blocked on a finished object / lost wake-up); events %r'
                  % (nw, nu, style, ex.failure, r['events'][-12:]), rep))
      return out
    v = r['value']
    if not isinstance(v, dict):
      out.append(('P:harness-exception:%s' % style, 'scenario raised %r' % (v,), rep))
      return out
    for w, d in v['watchers'].items():
      if style == 'final':
        if d['snapshot'] != v['final'] and not d['set']:
          out.append(('P:lost-update:final:%dw%du' % (nw, nu),
                      'watcher %d took snapshot value %d, final state is %d, but its event is not set; events %r'
                      % (w, d['snapshot'], v['final'], r['events']), rep))
        if d['set'] and not d['set_again']:
          out.append(('P:event-unset-again:%dw%du' % (nw, nu), 'watcher %d: event was set and later found cleared' % w, rep))
      else:
        if not d['seen'] or d['seen'][-1] != v['final']:
          out.append(('P:loop-missed-final:%dw%du' % (nw, nu), 'watcher %d saw %r, final %d' % (w, d['seen'], v['final']), rep))
    if len(v['watchers']) != nw:
      out.append(('P:watcher-missing', 'only %d of %d watchers finished' % (len(v['watchers']), nw), rep))
    return out

  return check


# ---- harness R: watcher on a real test run ----------------------------------------------------
def scenario_r(mode='pass'):
  htf.init()
  import openhtf as h  # pylint: disable=g-import-not-at-top

  def fn(sched):
    @h.measures(h.Measurement('m'))
    def p1(test):
      test.measurements.m = 1
      test.logger.info('hello')

    def p2(test):
      if mode == 'stop':
        return h.PhaseResult.STOP
      if mode == 'raise':
        raise ValueError('p2 failed')
      return None

    test = h.Test(p1, p2)
    res = {'seen': [], 'watcher_done': False}
    started = threading.Event()

    def watcher():
      started.wait()
      st = None
      while st is None:
        st = test.state
        if st is None:
          if res.get('execute_returned'):
            res['watcher_done'] = True
            return          # the run was over before the watcher could attach
          time.sleep(0.001)   # virtual sleep: lets the executor run (a bare yield would spin)
      # a watcher keeps the state object it attached to (like the station server does)
      while True:
        snap, ev = st.asdict_with_event()
        res['seen'].append(snap['status'])
        if snap['status'] == 'COMPLETED':
          break
        ev.wait()            # blocks forever if the final update is lost -> reported as deadlock
      res['watcher_done'] = True

    wt = threading.Thread(target=watcher, name='watcher')
    wt.start()
    started.set()
    ok = test.execute()
    res['execute_returned'] = True
    wt.join()
    res['ok'] = ok
    return res

  return fn


def state_focus():
  """Lines that are scheduling points in the harnesses driving a real TestState."""
  from openhtf import util  # pylint: disable=g-import-not-at-top
  from openhtf.core import test_state  # pylint: disable=g-import-not-at-top
  T, P = test_state.TestState, test_state.PhaseState
  out = [util.SubscribableStateMixin, T._finalize, T.set_status_running, T.mark_test_started, T.abort,  # pylint: disable=protected-access
         T._asdict, T.as_base_types, P._notify, P.as_base_types]  # pylint: disable=protected-access
  own = vars(T).get('notify_update')      # (only if TestState overrides the mixin's method)
  if own is not None:
    out.append(own)
  return out


def _jsonish(v):
  from vf.ref import render  # pylint: disable=g-import-not-at-top
  return render.jsonish(v)


def summary(d):
  """What a watcher can tell apart in a state snapshot (TestState._asdict() is a base-type rendering)."""
  rec = d['test_record']
  rps = d.get('running_phase_state')
  return (d['status'], len(rec.get('log_records', [])), len(rec.get('phases', [])),
          rps.get('name') if rps else None,
          tuple(sorted((k, m.get('outcome'), repr(_jsonish(m.get('measured_value', '<none>')))) for k, m in rps.get('measurements', {}).items())) if rps else (),
          rec.get('outcome'))


def truth(st):
  """The same summary read from the in-memory objects (no rendering cache involved)."""
  from vf.ref import render  # pylint: disable=g-import-not-at-top
  rec = st.test_record
  rps = st.running_phase_state
  meas = ()
  if rps is not None:
    rows = []
    for k, m in rps.measurements.items():
      r = render.measurement(m)
      rows.append((k, r['outcome'], repr(render.jsonish(r.get('measured_value', '<none>')))))
    meas = tuple(sorted(rows))
  return (st._status.name, len(rec.log_records), len(rec.phases), rps.name if rps is not None else None, meas,  # pylint: disable=protected-access
          rec.outcome.name if rec.outcome else None)


def scenario_q(mode='pass'):
  """Harness Q: a watcher that keeps watching until the state stops changing (not only until COMPLETED): every
  change -- also log records captured after finalization -- must fire the event handed out with the last snapshot.
  The watcher is attached from inside the first phase (no clock needed) and waits with a (virtual) timeout; a
  timeout that happens while the snapshot is stale, twice in a row (the second one cannot be an explored early
  timer at deviation bound 1), is a missed notification."""
  htf.init()
  import openhtf as h  # pylint: disable=g-import-not-at-top

  def fn(sched):
    res = {'seen': [], 'missed': [], 'watcher_done': False}
    attached = threading.Event()
    holder = {}

    def watcher():
      st = holder['test'].state
      stale_timeouts = 0
      while True:
        snap, ev = st.asdict_with_event()
        seen = summary(snap)
        res['seen'].append(seen)
        attached.set()
        while True:
          fired = ev.wait(0.05)
          if fired:
            stale_timeouts = 0
            break
          now = truth(st)        # (read from the objects themselves: no rendering cache can hide a change)
          if now != seen and not ev.is_set():
            stale_timeouts += 1
            if stale_timeouts >= 2:
              res['missed'].append((seen, now))
              res['watcher_done'] = True
              return
            continue
          stale_timeouts = 0
          if res.get('execute_returned') and now == seen:
            res['watcher_done'] = True
            return
          if ev.is_set():
            break

    wt = threading.Thread(target=watcher, name='watcher')

    @h.measures(h.Measurement('m'), h.Measurement('m2'), h.Measurement('m3'),
                h.Measurement('mt').with_transform(lambda x: x * 1000.0), h.Measurement('md').with_dimensions('i'))
    def p1(test):
      wt.start()
      attached.wait()
      test.measurements.m = 1
      test.logger.info('hello')
      test.measurements.m2 = 2          # two in a row: the first is still pending when the second is set
      time.sleep(0.01)                  # (the watcher starts its next snapshot here ...)
      test.measurements.m3 = 3          # ... and this one may arrive while that snapshot is being taken
      time.sleep(0.5)                   # then the phase is busy for a while: nothing else would wake a watcher
      test.measurements.mt = 0.001      # recorded (after the transform) as 1.0
      time.sleep(0.3)
      test.measurements.mt = 1.0        # an override whose raw value equals the recorded one: now 1000.0 is recorded
      time.sleep(0.5)
      test.measurements.md[0] = 1       # first point of a dimensioned measurement
      time.sleep(0.3)
      test.measurements.md[1] = 2       # ... and a further point: a change like any other
      time.sleep(0.5)
      import logging  # pylint: disable=g-import-not-at-top
      logging.getLogger('openhtf.plugs.some_driver').info('relay K1 closed')     # a library's module-level logger: recorded too
      time.sleep(0.5)

    def p2(test):
      if mode == 'stop':
        return h.PhaseResult.STOP
      return None

    test = h.Test(p1, p2)
    holder['test'] = test
    ok = test.execute()
    res['execute_returned'] = True
    wt.join()
    res['ok'] = ok
    return res

  return fn


def execute_q(mode, choices):
  htf.init()
  from openhtf import util  # pylint: disable=g-import-not-at-top
  from openhtf.core import test_state  # pylint: disable=g-import-not-at-top
  sched, value = explore.run_under_scheduler(
      scenario_q(mode), choices,
      focus_targets=state_focus(),
      focus_files=('openhtf/util/__init__.py',), max_steps=60000)
  result = {'value': value if isinstance(value, dict) else repr(value), 'failure': repr(sched.failure) if sched.failure else None}
  if isinstance(value, dict):
    result['outcome_key'] = (len(value['seen']), bool(value['missed']), value.get('ok'))
  else:
    result['outcome_key'] = ('failure', repr(sched.failure or value)[:100])
  return explore.Exec(list(choices), sched.points, result, sched.failure, sched.steps, len(sched.trace), sched.state_hashes)


def check_q(mode):
  def check(ex):
    out = []
    rep = {'part': 'Q', 'mode': mode, 'choices': ex.choices}
    if ex.failure is not None:
      out.append(('Q:%s:%s' % (mode, type(ex.failure).__name__), 'watcher on a real run ending %s: %s' % (mode, ex.failure), rep))
      return out
    v = ex.result['value']
    if not isinstance(v, dict):
      out.append(('Q:%s:harness-exception' % mode, 'scenario raised %r' % (v,), rep))
      return out
    for seen, now in v['missed']:
      field = [n for n, a, b in zip(('status', 'log records', 'phase records', 'running phase', 'measurements', 'outcome'), seen, now) if a != b]
      out.append(('Q:%s:change-without-notification:%s' % (mode, '+'.join(field)),
                  'the state changed from %r to %r after the snapshot was taken but the event handed out with it was never set' % (seen, now), rep))
    return out
  return check


# ---- harness V: a real Test whose phase prompts through the stock UserInput plug while a station watcher snapshots the state ----
def scenario_v():
  htf.init()
  import openhtf as h  # pylint: disable=g-import-not-at-top
  from openhtf.plugs import user_input  # pylint: disable=g-import-not-at-top

  def fn(sched):
    res = {'snaps': 0, 'watcher_done': False, 'prompt_seen': False}
    attached = threading.Event()
    holder = {}

    def watcher():
      st = holder['test'].state
      while True:
        try:
          snap, ev = st.asdict_with_event()
        except Exception as e:  # pylint: disable=broad-except
          import traceback  # pylint: disable=g-import-not-at-top
          res.setdefault('snapshot_errors', []).append('%s: %s @ %s' % (type(e).__name__, str(e)[:80], ' < '.join(
              '%s:%d' % (f.name, f.lineno) for f in reversed(traceback.extract_tb(e.__traceback__)[-4:]))))
          # (PlugManager.as_base_types iterates the live plug table: "dictionary changed size during iteration" while
          # plugs are being torn down is an acknowledged race -- openhtf's own station server retries on it, so does this watcher)
          if len(res['snapshot_errors']) > 20 or res.get('execute_returned'):
            res['watcher_done'] = len(res['snapshot_errors']) <= 20
            return
          time.sleep(0.01)
          continue
        res['snaps'] += 1
        plugs = snap.get('plugs', {}).get('plug_states', {})
        if any(v and v.get('message') == 'go?' for v in plugs.values() if isinstance(v, dict)):
          res['prompt_seen'] = True
        attached.set()
        while not ev.wait(0.05):
          if res.get('execute_returned'):
            res['watcher_done'] = True
            return

    wt = threading.Thread(target=watcher, name='watcher')

    @h.plugs.plug(prompts=user_input.UserInput)
    def ask(test, prompts):
      wt.start()
      attached.wait()
      test.logger.info('about to ask')     # (an update: the watcher is about to take its next snapshot)
      pid = prompts.start_prompt('go?', text_input=True)     # (logs "Displaying prompt" while it holds the plug's lock)
      time.sleep(0.1)
      prompts.respond(pid, 'yes')
      res['answer'] = prompts.wait_for_prompt(1.0)

    test = h.Test(ask)
    holder['test'] = test
    res['ok'] = test.execute()
    res['execute_returned'] = True
    wt.join()
    return res

  return fn


def execute_v(choices):
  htf.init()
  from openhtf import util  # pylint: disable=g-import-not-at-top
  from openhtf.plugs import user_input  # pylint: disable=g-import-not-at-top
  sched, value = explore.run_under_scheduler(
      scenario_v(), choices, focus_targets=state_focus() + [user_input.UserInput],
      focus_files=('openhtf/util/__init__.py', 'openhtf/plugs/user_input.py'), max_steps=60000)
  result = {'value': value if isinstance(value, dict) else repr(value), 'failure': repr(sched.failure) if sched.failure else None}
  if isinstance(value, dict):
    result['outcome_key'] = (value.get('snaps'), value.get('ok'), value.get('answer'), value.get('prompt_seen'))
  else:
    result['outcome_key'] = ('failure', repr(sched.failure or value)[:100])
  return explore.Exec(list(choices), sched.points, result, sched.failure, sched.steps, len(sched.trace), sched.state_hashes)


def check_v(ex):
  rep = {'part': 'V', 'choices': ex.choices}
  v = ex.result['value']
  if ex.failure is not None or not isinstance(v, dict):
    return [('V:%s' % (type(ex.failure).__name__ if ex.failure else 'harness-exception'),
             'a phase prompting through UserInput while a watcher snapshots the test state: %s / %s' % (ex.failure, v), rep)]
  out = []
  if v.get('answer') != 'yes' or v.get('ok') is not True:
    out.append(('V:prompt-result', 'the prompt was answered "yes" but the phase got %r (execute() -> %r)' % (v.get('answer'), v.get('ok')), rep))
  if not v.get('watcher_done'):
    out.append(('V:watcher-stuck', 'the watcher never got past its last snapshot', rep))
  return out


# ---- harness U: a frontend-aware plug (UserInput) driven through operation sequences, two watchers --------------------
U_OPS = ['start', 'respond', 'respond_wrong', 'remove', 'wait_timeout', 'prompt_timeout']


def scenario_u(ops):
  htf.init()
  from openhtf.plugs import user_input  # pylint: disable=g-import-not-at-top

  def fn(sched):
    plug = user_input.UserInput()
    res = {'missed': [], 'errors': [], 'done': False}

    def watcher(tag):
      stale = 0
      while True:
        snap, ev = plug.asdict_with_event()
        while True:
          if ev.wait(0.2):
            stale = 0
            break
          now = plug._asdict()  # pylint: disable=protected-access
          if now != snap and not ev.is_set():
            stale += 1
            if stale >= 2:
              res['missed'].append((tag, snap, now))
              return
            continue
          stale = 0
          if res['done'] and now == snap:
            return
          if ev.is_set():
            break

    ws = [threading.Thread(target=watcher, args=(t,), name='watcher' + t) for t in ('A', 'B')]
    for w in ws:
      w.start()
    pid = [None]
    for op in ops:
      try:
        if op == 'start':
          pid[0] = plug.start_prompt('msg %d' % len(res['errors']), text_input=True)
        elif op == 'respond':
          plug.respond(pid[0], 'answer')
        elif op == 'respond_wrong':
          plug.respond('not-the-id', 'answer')
        elif op == 'remove':
          plug.remove_prompt()
        elif op == 'wait_timeout':
          plug.wait_for_prompt(0.05)
        elif op == 'prompt_timeout':
          plug.prompt('timed', timeout_s=0.05)
      except (user_input.PromptUnansweredError, user_input.MultiplePromptsError) as e:
        res['errors'].append(type(e).__name__)
    res['done'] = True
    for w in ws:
      w.join()
    try:
      plug.tearDown()
    except Exception:  # pylint: disable=broad-except
      pass
    return res

  return fn


def execute_u(ops, choices):
  htf.init()
  from openhtf import util  # pylint: disable=g-import-not-at-top
  from openhtf.plugs import user_input  # pylint: disable=g-import-not-at-top
  sched, value = explore.run_under_scheduler(
      scenario_u(ops), choices, focus_targets=[util.SubscribableStateMixin, user_input.UserInput],
      focus_files=('openhtf/util/__init__.py', 'openhtf/plugs/user_input.py'), max_steps=40000)
  result = {'value': value if isinstance(value, dict) else repr(value), 'failure': repr(sched.failure) if sched.failure else None}
  result['outcome_key'] = repr(value)[:200] if sched.failure is None else 'failure %r' % (sched.failure,)
  return explore.Exec(list(choices), sched.points, result, sched.failure, sched.steps, len(sched.trace), sched.state_hashes)


def check_u(ops):
  def check(ex):
    rep = {'part': 'U', 'ops': list(ops), 'choices': ex.choices}
    tag = '>'.join(ops)
    v = ex.result['value']
    if ex.failure is not None or not isinstance(v, dict):
      return [('U:%s:%s' % (tag, type(ex.failure).__name__ if ex.failure else 'harness-exception'),
               'UserInput plug driven through %r with two watchers: %s / %s' % (list(ops), ex.failure, v), rep)]
    out = []
    for who, seen, now in v['missed']:
      out.append(('U:%s:change-without-notification' % tag, 'watcher %s holds the prompt state %r while the plug says %r, and its '
                  'event was never set' % (who, seen, now), rep))
    return out
  return check


def _u_default(seq):
  ex = execute_u(seq, [])
  return check_u(seq)(ex), ex.steps


def u_sequences(tier):
  import itertools  # pylint: disable=g-import-not-at-top
  depth = 3 if tier == 'quick' else 4
  for d in range(1, depth + 1):
    for seq in itertools.product(U_OPS, repeat=d):
      if 'start' in seq or 'prompt_timeout' in seq:
        yield list(seq)


def scenario_s(mode):
  """Narrow seam: a TestState driven directly through one finalization path, one watcher."""
  htf.init()
  import openhtf as h  # pylint: disable=g-import-not-at-top
  from openhtf.core import phase_executor, test_state  # pylint: disable=g-import-not-at-top

  def fn(sched):
    def p1(test):
      pass
    test = h.Test(p1)
    state = test_state.TestState(test.descriptor, 'uid-c18', test._test_options)  # pylint: disable=protected-access
    res = {'seen': [], 'watcher_done': False}

    def watcher():
      while True:
        snap, ev = state.asdict_with_event()
        res['seen'].append(snap['status'])
        if snap['status'] == 'COMPLETED':
          break
        ev.wait()
      res['watcher_done'] = True

    wt = threading.Thread(target=watcher, name='watcher')
    wt.start()
    try:
      state.mark_test_started()
      state.set_status_running()
      if mode == 'abort':
        state.abort()
      elif mode == 'normal':
        state.finalize_normally()
      else:
        if mode == 'stop':
          outcome = phase_executor.PhaseExecutionOutcome(h.PhaseResult.STOP)
        elif mode == 'timeout':
          outcome = phase_executor.PhaseExecutionOutcome(None)
        else:
          try:
            raise ValueError('boom')
          except ValueError:
            import sys  # pylint: disable=g-import-not-at-top
            outcome = phase_executor.PhaseExecutionOutcome(phase_executor.ExceptionInfo(*sys.exc_info()))
        state.finalize_from_phase_outcome(outcome, 'p1')
      wt.join()
    finally:
      state.close()
    return res

  return fn


def execute_s(mode, choices):
  htf.init()
  from openhtf import util  # pylint: disable=g-import-not-at-top
  from openhtf.core import test_state  # pylint: disable=g-import-not-at-top
  sched, value = explore.run_under_scheduler(
      scenario_s(mode), choices,
      focus_targets=state_focus(),
      focus_files=('openhtf/util/__init__.py',), max_steps=20000)
  result = {'value': value if isinstance(value, dict) else repr(value), 'failure': repr(sched.failure) if sched.failure else None}
  if isinstance(value, dict):
    result['outcome_key'] = (tuple(value['seen']), value['watcher_done'])
  else:
    result['outcome_key'] = ('failure', repr(sched.failure or value)[:100])
  return explore.Exec(list(choices), sched.points, result, sched.failure, sched.steps, len(sched.trace), sched.state_hashes)


def execute_r(cfg, choices):
  htf.init()
  from openhtf import util  # pylint: disable=g-import-not-at-top
  from openhtf.core import test_state  # pylint: disable=g-import-not-at-top
  sched, value = explore.run_under_scheduler(
      scenario_r(cfg or 'pass'), choices,
      focus_targets=state_focus(),
      focus_files=('openhtf/util/__init__.py',), max_steps=40000)
  result = {'value': value if isinstance(value, dict) else repr(value), 'failure': repr(sched.failure) if sched.failure else None}
  if isinstance(value, dict):
    result['outcome_key'] = (tuple(value['seen']), value['watcher_done'], value.get('ok'))
  else:
    result['outcome_key'] = ('failure', repr(sched.failure or value)[:100])
  return explore.Exec(list(choices), sched.points, result, sched.failure, sched.steps, len(sched.trace), sched.state_hashes)


def check_r(mode):
  def check(ex):
    out = []
    rep = {'part': 'R', 'mode': mode, 'choices': ex.choices}
    if ex.failure is not None:
      out.append(('R:%s:%s' % (mode, type(ex.failure).__name__),
                  'watcher attached to a real run ending %s: %s (watcher left blocked on a finished test)' % (mode, ex.failure), rep))
      return out
    v = ex.result['value']
    if not isinstance(v, dict):
      out.append(('R:%s:harness-exception' % mode, 'scenario raised %r' % (v,), rep))
      return out
    if v['seen'] and v['seen'][-1] != 'COMPLETED':
      out.append(('R:%s:final-not-observed' % mode, 'watcher looping on snapshot-then-wait saw %r, never COMPLETED' % (v['seen'],), rep))
    return out
  return check


CONFIGS_P = {
    'quick': [((1, 1, 'final'), 3), ((1, 1, 'loop'), 2), ((2, 1, 'final'), 1), ((1, 2, 'final'), 1), ((2, 2, 'loop'), 0)],
    'thorough': [((1, 1, 'final'), 6), ((1, 1, 'loop'), 6), ((2, 1, 'final'), 3), ((1, 2, 'final'), 3), ((1, 2, 'loop'), 3),
                 ((2, 2, 'final'), 2), ((2, 2, 'loop'), 2)],
}


def run(tier):
  rep = common.Report(PID, tier, 'model_checking')
  n_u = 4 if tier == 'quick' else sum(1 for q in u_sequences(tier) if len(q) <= 2)
  explore.set_plan(common.thorough_budget(tier, 1200.0), len(CONFIGS_P[tier]) + 3 + (1 if tier == 'quick' else 2) + n_u + 1 + 5)
  for cfg, bound in CONFIGS_P[tier]:
    key = 'P:%r' % (cfg,)
    r = explore.explore(key, lambda ch, cfg=cfg: execute_p(cfg, ch), check_p(cfg), bound,
                        cap=400000 if tier == 'thorough' else 60000)
    rep.merge_violations(r['violations'])
    rep.add_part('P watchers=%d updaters=%d style=%s' % cfg, states=max(1, r['states']), transitions=r['steps'],
                 traces_validated_against_impl=r['executions'], deviation_bound=bound, distinct_outcomes=len(r['outcomes']),
                 exhaustive=not r['capped'], decision_points_default=r['default_points'], samples=r['samples'] or [{'choices': []}])
  bound_r = 1 if tier == 'quick' else 2
  for mode in ('pass', 'stop', 'raise'):
    r = explore.explore('R:' + mode, lambda ch, mode=mode: execute_r(mode, ch), check_r(mode), bound_r,
                        cap=300000 if tier == 'thorough' else 40000)
    rep.merge_violations(r['violations'])
    rep.add_part('R watcher on a real Test.execute() ending %s' % mode, states=max(1, r['states']), transitions=r['steps'],
                 traces_validated_against_impl=r['executions'], deviation_bound=bound_r, distinct_outcomes=len(r['outcomes']),
                 exhaustive=not r['capped'], decision_points_default=r['default_points'], samples=r['samples'] or [{'choices': []}])
  for mode in (('pass',) if tier == 'quick' else ('pass', 'stop')):
    r = explore.explore('Q:' + mode, lambda ch, mode=mode: execute_q(mode, ch), check_q(mode), 1,
                        cap=300000 if tier == 'thorough' else 40000)
    rep.merge_violations(r['violations'])
    rep.add_part('Q watcher until quiescence on a real Test.execute() ending %s' % mode, states=max(1, r['states']), transitions=r['steps'],
                 traces_validated_against_impl=r['executions'], deviation_bound=1, distinct_outcomes=len(r['outcomes']),
                 exhaustive=not r['capped'], decision_points_default=r['default_points'], samples=r['samples'] or [{'choices': []}])
  # U: every operation sequence in the default schedule (the plug's own timeouts are virtual); the short ones also
  # under all schedules with one preemption
  useqs = list(u_sequences(tier))
  ures = common.pmap(_u_default, useqs, chunksize=4)
  for seq, (viols, steps) in zip(useqs, ures):
    rep.merge_violations(viols)
  nu, eu, su = len(useqs), len(useqs), sum(r[1] for r in ures)
  for seq in ([['prompt_timeout'], ['start', 'respond'], ['start', 'remove'], ['start', 'wait_timeout']] if tier == 'quick'
              else [s for s in useqs if len(s) <= 2]):
    r = explore.explore('U:%r' % (seq,), lambda ch, seq=seq: execute_u(seq, ch), check_u(seq), 1, cap=20000)
    rep.merge_violations(r['violations'])
    eu += r['executions']
    su += r['steps']
  rep.add_part('U UserInput plug, operation sequences, two watchers', states=max(1, nu), transitions=su, traces_validated_against_impl=eu,
               sequences=nu, exhaustive=True, samples=[{'ops': U_OPS, 'depth': 3 if tier == 'quick' else 4}])
  bound_v = 1 if tier == 'quick' else 2
  r = explore.explore('V', execute_v, check_v, bound_v, cap=300000 if tier == 'thorough' else 40000)
  rep.merge_violations(r['violations'])
  rep.add_part('V phase prompting through UserInput while a watcher snapshots the state', states=max(1, r['states']), transitions=r['steps'],
               traces_validated_against_impl=r['executions'], deviation_bound=bound_v, distinct_outcomes=len(r['outcomes']),
               exhaustive=not r['capped'], decision_points_default=r['default_points'], samples=r['samples'] or [{'choices': []}])
  bound_s = 2 if tier == 'quick' else 3
  for mode in ('abort', 'stop', 'timeout', 'raise', 'normal'):
    r = explore.explore('S:' + mode, lambda ch, mode=mode: execute_s(mode, ch), check_r('S-' + mode), bound_s,
                        cap=300000 if tier == 'thorough' else 40000)
    rep.merge_violations([(sig.replace('R:', 'S:', 1), what, dict(rp, part='S', mode=mode)) for sig, what, rp in r['violations']])
    rep.add_part('S watcher on a TestState finalized by %s' % mode, states=max(1, r['states']), transitions=r['steps'],
                 traces_validated_against_impl=r['executions'], deviation_bound=bound_s, distinct_outcomes=len(r['outcomes']),
                 exhaustive=not r['capped'], decision_points_default=r['default_points'], samples=r['samples'] or [{'choices': []}])
  rep.assumptions = [
      'scheduling points: every source line of SubscribableStateMixin and of the listed TestState methods, every operation on '
      'locks/events created in openhtf/util/__init__.py, thread start/exit/join; other primitives are modelled but only switch when contended',
      'all schedules with at most the stated number of preemptions are executed (CHESS-style iterative context bounding); '
      '"random schedules" of the quantifier are outside this technique family',
      'deadlock (= a watcher blocked forever) is detected as "no enabled thread and no timer"',
  ]
  return rep.finish(rule='stateless exploration of the real code under a controlled scheduler; states = distinct (thread state/label vector, decision) '
                         'hashes seen, transitions = scheduling steps, traces = complete executions')


def replay(art):
  r = art['replay']
  if r['part'] == 'P':
    cfg = tuple(r['cfg'])
    ex = execute_p(cfg, r['choices'])
    bad = check_p(cfg)(ex)
  elif r['part'] == 'S':
    ex = execute_s(r['mode'], r['choices'])
    bad = check_r('S-' + r['mode'])(ex)
  elif r['part'] == 'U':
    ex = execute_u(r['ops'], r['choices'])
    bad = check_u(r['ops'])(ex)
  elif r['part'] == 'Q':
    ex = execute_q(r['mode'], r['choices'])
    bad = check_q(r['mode'])(ex)
  elif r['part'] == 'V':
    ex = execute_v(r['choices'])
    bad = check_v(ex)
  else:
    ex = execute_r(r.get('mode', 'pass'), r['choices'])
    bad = check_r(r.get('mode', 'pass'))(ex)
  print('result', ex.result.get('value'), 'failure', ex.failure)
  for b in bad:
    print('VIOLATED', b[0], b[1])
  return 1 if bad else 0
