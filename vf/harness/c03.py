"""C03 PhaseGroup teardown always runs once the group was entered.

programs part (Engine E): group nestings (flat, in main, in teardown, in a
subtest, in a branch, two in sequence) x phase behaviours incl. exception, STOP,
timeout, FAIL_SUBTEST, failure inside a nested group and terminal earlier
teardown nodes.  Oracle = trace predicate on the body call log, the plug
tearDown event and the phase records -- independent of the reference
interpreter's control flow.
schedules part (Engine S, vf/harness/c03_sched.py): a single abort arriving at
every scheduling point.
"""
import itertools
import json

from vf import common, progs
from vf.harness import c01

PID = 'C03'

OK = {'ret': ['ok']}
SENT = {'ret': ['ok'], 'plug': True}     # always-passing first setup phase; also holds the logging plug
S_ALPHA = [OK, {'ret': ['stop']}, {'ret': ['raise']}]
M_ALPHA = [OK, {'ret': ['fail']}, {'ret': ['stop']}, {'ret': ['raise']}, {'ret': ['hang']}]
T_ALPHA = [OK, {'ret': ['stop']}, {'ret': ['raise']}, {'ret': ['hang']}]
FS = {'ret': ['fail_subtest']}


def P(b):
  return ['p', b]


def G(setup, main, td):
  return ['grp', [P(SENT)] + [P(b) for b in setup], main, td]


def templates(tier):
  """Yields (label, spec)."""
  for s, m1, m2, t1, t2 in itertools.product(S_ALPHA, M_ALPHA, M_ALPHA, T_ALPHA, T_ALPHA):
    yield 'flat', [G([s], [P(m1), P(m2)], [P(t1), P(t2)]), P(OK)]
  for m0, s, m, t, ot in itertools.product(M_ALPHA, S_ALPHA, M_ALPHA, T_ALPHA, T_ALPHA):
    yield 'in-main', [G([], [P(m0), G([s], [P(m)], [P(t)]), P(OK)], [P(ot)]), P(OK)]
  for m0, t0, s, m, t, t2 in itertools.product(M_ALPHA, T_ALPHA, S_ALPHA, M_ALPHA, T_ALPHA, T_ALPHA[:3]):
    yield 'in-teardown', [G([], [P(m0)], [P(t0), G([s], [P(m)], [P(t)]), P(t2)]), P(OK)]
  for p0, s, m, t1, t2 in itertools.product([OK, FS, {'ret': ['fail']}], S_ALPHA + [FS], M_ALPHA + [FS], T_ALPHA + [FS], T_ALPHA):
    yield 'in-subtest', [['sub', [P(p0), G([s], [P(m), P(OK)], [P(t1), P(t2)]), P(OK)]], P(OK)]
  for cond, s, m, t in itertools.product(['any', 'not_any'], S_ALPHA, M_ALPHA, T_ALPHA):
    yield 'in-branch', [P({'ret': ['ok'], 'diag': ['A'], 'plug': True}), ['br', [cond, ['A']], [G([s], [P(m)], [P(t)])]], P(OK)]
  for s1, m1, t1, s2, m2, t2 in itertools.product(S_ALPHA, M_ALPHA, T_ALPHA, S_ALPHA, M_ALPHA, T_ALPHA):
    yield 'two-in-sequence', [G([s1], [P(m1)], [P(t1)]), G([s2], [P(m2)], [P(t2)]), P(OK)]
  # groups without main nodes / without setup nodes other than the sentinel (every slot of a group is optional)
  for s, t1, t2 in itertools.product(S_ALPHA, T_ALPHA, T_ALPHA[:2]):
    yield 'no-main', [G([s], [], [P(t1), P(t2)]), P(OK)]
    yield 'no-main-in-subtest', [['sub', [G([s], [], [P(t1), P(t2)]), P(OK)]], P(OK)]
    yield 'no-main-nested', [G([], [G([s], [], [P(t1)])], [P(t2)]), P(OK)]
  # teardown nodes that are not plain phases: a branch (and a checkpoint) in the teardown of a group inside a subtest
  # that main -- or an earlier phase -- may already have failed
  DA = {'ret': ['ok'], 'diag': ['A']}
  for p0, s, m, cond, t, t2 in itertools.product([DA, FS, {'ret': ['fail_subtest'], 'diag': ['A']}], S_ALPHA[:2], M_ALPHA + [FS],
                                                 ['any', 'not_any'], T_ALPHA[:3], T_ALPHA[:2]):
    yield 'td-branch-in-subtest', [['sub', [P(p0), G([s], [P(m)], [['br', [cond, ['A']], [P(t)]], ['c', 'last', 'stop'], P(t2)]), P(OK)]], P(OK)]
  for s, m, cond, t in itertools.product(S_ALPHA[:2], M_ALPHA, ['any', 'not_any'], T_ALPHA[:3]):
    yield 'td-branch', [P({'ret': ['ok'], 'diag': ['A'], 'plug': True}), G([s], [P(m)], [['br', [cond, ['A']], [P(t)]], P(OK)]), P(OK)]
  # a checkpoint as last setup node of a group nested in a teardown, after an earlier terminal (or merely failed) main
  for m0, ck, m, t in itertools.product(M_ALPHA, [('all', 'stop'), ('last', 'stop'), ('all', 'fs')], M_ALPHA[:3], T_ALPHA[:2]):
    yield 'ckpt-setup-in-teardown', [['grp', [P(SENT)], [P({'ret': ['fail']}), P(m0)],
                                      [['grp', [P(SENT), ['c', ck[0], ck[1]]], [P(m)], [P(t)]], P(OK)]], P(OK)]
  for m0, ck, m, t in itertools.product(M_ALPHA[:3], [('all', 'stop'), ('last', 'stop')], M_ALPHA[:3], T_ALPHA[:2]):
    yield 'ckpt-setup', [P({'ret': ['ok'], 'plug': True}), P(m0), ['grp', [P(SENT), ['c', ck[0], ck[1]]], [P(m)], [P(t)]], P(OK)]
  # profiled runs with bodies that also ignore the termination request (their thread is left behind alive)
  DEAF = {'ret': ['hangdeaf']}
  for s, m1, m2, t1 in itertools.product(S_ALPHA[:1], [OK, DEAF, {'ret': ['hang']}, {'ret': ['raise']}], [OK, DEAF], T_ALPHA[:3] + [DEAF]):
    yield 'profiled', [G([s], [P(m1), P(m2)], [P(t1), P(OK)]), P(OK)]
  for m0, t0, m, t in itertools.product([OK, DEAF], [OK, DEAF], [OK, DEAF], [OK, DEAF]):
    yield 'profiled-in-teardown', [G([], [P(m0)], [P(t0), G([OK], [P(m)], [P(t)]), P(OK)]), P(OK)]
  if tier == 'thorough':
    for m0, s, m, t, s2, m2, t2, ot in itertools.product(M_ALPHA[:4], S_ALPHA, M_ALPHA[:4], T_ALPHA, S_ALPHA, M_ALPHA[:4], T_ALPHA, T_ALPHA[:3]):
      yield 'two-in-main', [G([], [P(m0), G([s], [P(m)], [P(t)]), G([s2], [P(m2)], [P(t2)])], [P(ot)]), P(OK)]
    for m0, s, m, t, s2, m2, t2 in itertools.product(M_ALPHA[:4], S_ALPHA, M_ALPHA, T_ALPHA, S_ALPHA, M_ALPHA[:4], T_ALPHA):
      yield 'nested-3', [G([], [P(m0), G([s], [P(m), G([s2], [P(m2)], [P(t2)])], [P(t)])], [P(OK)]), P(OK)]


def leaves(nodes):
  out = []
  for n in nodes:
    k = n['k']
    if k == 'p':
      out.append(n['name'])
    elif k in ('seq', 'sub', 'br'):
      out += leaves(n['nodes'])
    elif k == 'grp':
      out += leaves(n['setup']) + leaves(n['main']) + leaves(n['teardown'])
  return out


TERMINAL_RESULTS = ('STOP', 'TIMEOUT', 'KILLED')


def rec_terminal(p):
  return p[1] == 'ERROR' or p[2] in TERMINAL_RESULTS or p[2].startswith('EXC:')


def check_groups(spec, obs):
  """Trace predicate; returns list of (kind, what)."""
  tree, _ = progs.number(spec)
  bad = []
  pos = {}      # leaf name -> list of call positions
  plug_td = None
  for i, c in enumerate(obs['calls']):
    if c[0] == 'plug_teardown':
      plug_td = i if plug_td is None else plug_td
    elif c[0].startswith('p') and len(c) == 2 and isinstance(c[1], int):
      pos.setdefault(c[0], []).append(i)
  last_rec = {}
  for p in obs.get('phases', []):
    last_rec[p[0]] = p
  order = leaves(tree)       # document order of all leaves

  def visit(nodes, following_outer, protected=frozenset()):
    """following_outer: leaf names after this node list in execution order;
    protected: teardown leaves of enclosing groups (they run even after a terminal result)."""
    for idx, n in enumerate(nodes):
      k = n['k']
      after_here = leaves(nodes[idx + 1:]) + following_outer
      if k in ('seq', 'sub', 'br'):
        visit(n['nodes'], after_here, protected)
      elif k == 'grp':
        setup, main, td = leaves(n['setup']), leaves(n['main']), leaves(n['teardown'])
        sentinel = setup[0]
        reached = bool(pos.get(sentinel))
        entered = reached and all(pos.get(s) for s in setup)
        if entered:
          for s in setup:
            r = last_rec.get(s)
            if r is None or rec_terminal(r) or r[2] == 'FAIL_SUBTEST' or r[1] == 'SKIP':
              entered = False
        # a checkpoint among the setup nodes that fired (STOP / FAIL_SUBTEST ...) means setup did not complete either
        for c in n['setup']:
          if c['k'] == 'c':
            recs = [b for b in obs.get('checkpoints', []) if b[0] == c['name']]
            if not recs or recs[-1][1] not in ('CONTINUE', 'NONE'):
              entered = False
        direct_td = [c['name'] for c in n['teardown'] if c['k'] == 'p']
        if entered:
          main_pos = [x for m in main for x in pos.get(m, [])]
          for t in direct_td:
            cnt = len(pos.get(t, []))
            if cnt != 1:
              bad.append(('teardown-count', 'group %s was entered (setup %r completed) but teardown phase %s ran %d times'
                          % (n['name'], setup, t, cnt)))
              continue
            tp = pos[t][0]
            if main_pos and tp < max(main_pos):
              bad.append(('teardown-before-main-end', 'teardown %s of %s ran before a main body of the group finished starting' % (t, n['name'])))
            for f in after_here:
              if any(x < tp for x in pos.get(f, [])):
                bad.append(('teardown-after-following', 'teardown %s of %s ran after following node %s' % (t, n['name'], f)))
            if plug_td is not None and plug_td < tp:
              bad.append(('teardown-after-plug-teardown', 'teardown %s of %s ran after plug tearDown' % (t, n['name'])))
          # teardown nodes that are not phases are "executed" when they are evaluated: exactly one record each
          for c in n['teardown']:
            if c['k'] == 'grp':
              # a group among the teardown nodes is executed like any other teardown node: its setup starts, once
              first = leaves(c['setup'])[:1]
              cnt = len(pos.get(first[0], [])) if first else 1
              if cnt != 1:
                bad.append(('teardown-group-count', 'group %s was entered but the group %s among its teardown nodes was started %d times'
                            % (n['name'], c['name'], cnt)))
            elif c['k'] == 'br':
              cnt = sum(1 for b in obs.get('branches', []) if b[0] == c['name'])
              if cnt != 1:
                bad.append(('teardown-branch-count', 'group %s was entered but its teardown branch %s was evaluated %d times'
                            % (n['name'], c['name'], cnt)))
            elif c['k'] == 'c':
              cnt = sum(1 for b in obs.get('checkpoints', []) if b[0] == c['name'])
              if cnt != 1:
                bad.append(('teardown-checkpoint-count', 'group %s was entered but its teardown checkpoint %s was evaluated %d times'
                            % (n['name'], c['name'], cnt)))
          if any(rec_terminal(last_rec[t]) for t in direct_td if t in last_rec):
            if obs.get('outcome') == 'PASS':
              bad.append(('terminal-teardown-lost', 'a teardown phase of %s had a terminal result but the outcome is PASS' % n['name']))
            for f in after_here:
              if f not in protected and pos.get(f):
                bad.append(('terminal-teardown-not-propagated',
                            'a teardown phase of %s had a terminal result but the following node %s still ran' % (n['name'], f)))
        elif reached:
          for x in main + td:
            if pos.get(x):
              bad.append(('ran-without-setup', 'group %s setup did not complete but %s ran' % (n['name'], x)))
        # recurse: main's followers are the teardown + after_here; nested groups in teardown follow the same rule
        visit(n['main'], td + after_here, protected | frozenset(td))
        visit(n['teardown'], after_here, protected | frozenset(td))
      # plain phases / checkpoints: nothing to check
  visit(tree, [])
  if plug_td is None and any(pos.values()):
    bad.append(('no-plug-teardown', 'plug tearDown never ran'))
  return bad


def sig(spec):
  return c01.sig_of(spec, {}).split(' @')[0]


def _work(item):
  tier, start, step = item
  n, viols, outcomes, sample = 0, [], set(), None
  for i, (label, spec) in enumerate(templates(tier)):
    if i % step != start:
      continue
    n += 1
    # CONF.capture_source makes Test() rebuild the node tree (load_code_info): every 3rd template also runs that way
    settings = {'capture_source': True} if (i % 3 == 0 or label.startswith('no-main')) and i % 2 == 0 else {}
    if label.startswith('profiled'):
      settings = {'profile': True}
    obs = progs.run_spec(spec, settings)
    if settings.get('capture_source'):
      label += '+capture_source'
    bad = check_groups(spec, obs)
    if str(obs.get('ret')).startswith('EXC:'):
      bad.append(('execute-raised', 'execute() raised %s: nothing of the program ran' % obs['ret']))
    outcomes.add((label, obs.get('outcome'), tuple(c[0] for c in obs['calls'] if c[0] != 'plug_init')))
    if sample is None and i > 100:
      sample = {'template': label, 'program': sig(spec), 'calls': obs['calls'], 'outcome': obs.get('outcome')}
    for kind, what in bad:
      viols.append(('programs:%s:%s:%s' % (kind, label, sig(spec)), '%s %s: %s (calls %r)' % (label, sig(spec), what, obs['calls']),
                    {'part': 'programs', 'spec': spec, 'settings': settings}))
  return n, viols, len(outcomes), sample


def run(tier):
  rep = common.Report(PID, tier, 'model_checking')
  step = common.NCPU * 4
  res = common.pmap(_work, common.rotate([(tier, s, step) for s in range(step)]), chunksize=1)
  n = sum(r[0] for r in res)
  samples = []
  for r in res:
    rep.merge_violations(r[1])
    if r[3] and len(samples) < 3:
      samples.append(r[3])
  rep.add_part('programs', states=n, transitions=n, traces_validated_against_impl=n, evaluations=n,
               distinct_nontrivial=sum(r[2] for r in res), exhaustive=True, samples=samples)
  try:
    from vf.harness import c03_sched  # pylint: disable=g-import-not-at-top
  except ImportError:
    c03_sched = None
  if c03_sched is not None:
    c03_sched.run_into(rep, tier)
  rep.assumptions = [
      'group setups consist of plain phases (first one an always-passing sentinel that also holds the logging plug), so '
      '"entered" is decided from the records alone; groups nested inside teardown are only generated outside subtests',
      'teardown leaves never REPEAT, so "exactly once" is a literal count',
  ]
  return rep.finish(rule='all behaviour assignments for 6 (8 in thorough) nesting templates executed on the real executor; '
                         'trace predicate per group instance')


def replay(art):
  r = art['replay']
  if r.get('part') == 'schedules':
    from vf.harness import c03_sched  # pylint: disable=g-import-not-at-top
    return c03_sched.replay(r)
  obs = progs.run_spec(r['spec'], r.get('settings') or {})
  print('calls', obs['calls'])
  print('phases', [(p[0], p[1], p[2]) for p in obs.get('phases', [])], 'outcome', obs.get('outcome'))
  bad = check_groups(r['spec'], obs)
  for b in bad:
    print('VIOLATED', b)
  return 1 if bad else 0
