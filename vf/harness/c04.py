"""C04 operator abort: stateless schedule exploration of abort vs executor vs phase threads.

Programs (real Test.execute() under the controlled scheduler):
  plain3     three plain phases
  group      PhaseGroup(setup s, main m1 m2, teardown t1 t2) + plug with tearDown
  repeat     a phase returning REPEAT twice, then a phase
  subtest    a subtest with two phases, then a phase
  trigger    test_start trigger phase + one phase
Aborter: a thread calling Test.abort_from_sig_int() once or twice, or SIGINT
delivered on the main thread (Test.handle_sig_int) at any decision point while
execute() runs.  Every source line of the abort path, the phase start path and
the finalization path is a scheduling point.
"""
import threading
import time

from vf import common, htf
from vf.sched import explore, runtime

PID = 'C04'


def mods():
  htf.init()
  import openhtf as h  # pylint: disable=g-import-not-at-top
  from openhtf.core import phase_executor, test_descriptor, test_executor, test_state  # pylint: disable=g-import-not-at-top
  from openhtf.util import threads  # pylint: disable=g-import-not-at-top
  return h, phase_executor, test_descriptor, test_executor, test_state, threads


def focus():
  h, pe, td, te, ts, th = mods()
  T, P = te.TestExecutor, pe.PhaseExecutor
  return [T.abort, T._stop_phase_executor, T._execute_abortable_sequence, T._execute_teardown_sequence,  # pylint: disable=protected-access
          T._execute_test_teardown, T._thread_proc, T._execute_test_start, T._execute_phase, T._execute_phase_group,  # pylint: disable=protected-access
          P._execute_phase_once, P.stop, P.reset_stop, P.execute_phase,  # pylint: disable=protected-access
          pe.PhaseExecutorThread.join_or_die, th.KillableThread.run, th.KillableThread.kill, th.KillableThread.async_raise,
          td.Test.abort_from_sig_int, td.Test.execute, ts.TestState.abort, ts.TestState._finalize, ts.TestState.running_phase_context]  # pylint: disable=protected-access


FOCUS_FILES = ('openhtf/core/test_executor.py', 'openhtf/core/phase_executor.py', 'openhtf/util/threads.py',
               'openhtf/core/test_descriptor.py')
LINE_WATCH = ('abort', '_execute_test_teardown', '_finalize', 'stop')


OVER = [False]      # set when execute() has returned: lets a deliberately deaf body end
DEAF_NAP = [0.5]    # virtual seconds a deaf body sleeps between two looks at OVER


def build(program, log):
  h, pe, td, te, ts, th = mods()

  def mk(name, kind, rets=None, deaf=False, waits=False, noarg=False):
    counter = {'n': 0}

    def body(test):
      counter['n'] += 1
      runtime.vlog('body-start', name, kind, counter['n'])
      if waits:
        # a teardown that waits for something that never comes: only a cancellation (or its own timeout) ends it
        try:
          while not OVER[0]:
            runtime.yield_point('b1:' + name)
            time.sleep(70.0)         # (few, long waits: few moments at which the explorer may place the second abort)
        except th.ThreadTerminationError:
          runtime.vlog('body-killed', name, kind, time.monotonic())
          raise
        return None
      if deaf:
        # stuck where the termination request cannot end it (a blocking call in C): the executor has to leave it behind
        while not OVER[0]:
          try:
            runtime.yield_point('b1:' + name)
            time.sleep(DEAF_NAP[0])
          except th.ThreadTerminationError:
            runtime.vlog('body-kill-ignored', name, kind)
        return None
      try:
        runtime.yield_point('b1:' + name)
        time.sleep(0.01)
        runtime.yield_point('b2:' + name)
      except th.ThreadTerminationError:
        runtime.vlog('body-killed', name, kind)
        raise
      runtime.vlog('body-end', name, kind)
      if rets and counter['n'] <= len(rets):
        return rets[counter['n'] - 1]
      return None

    if noarg:
      # a phase function that takes no arguments at all (nothing of the test API is touched before its first statement)
      inner = body

      def body():  # pylint: disable=function-redefined
        return inner(None)

    body.__name__ = name
    return h.PhaseOptions(name=name)(body)

  class Plug(h.plugs.BasePlug):

    def __init__(self):
      runtime.vlog('plug-init')

    def tearDown(self):
      runtime.vlog('plug-teardown-begin')
      runtime.yield_point('ptd:plug')
      runtime.vlog('plug-teardown')

  def with_plug(ph):
    return h.plugs.plug(update_kwargs=False, p=Plug)(ph)

  test_start = None
  if program == 'plain3':
    nodes = [with_plug(mk('a', 'main')), mk('b', 'main'), mk('c', 'main')]
  elif program == 'plain3_noarg':
    nodes = [mk('a', 'main', noarg=True), mk('b', 'main', noarg=True), mk('c', 'main', noarg=True)]
  elif program == 'group':
    nodes = [h.PhaseGroup(setup=[with_plug(mk('s', 'setup'))], main=[mk('m1', 'main'), mk('m2', 'main')],
                          teardown=[mk('t1', 'teardown'), mk('t2', 'teardown')]), mk('after', 'main')]
  elif program == 'group_tdwait':
    nodes = [h.PhaseGroup(setup=[with_plug(mk('s', 'setup'))], main=[mk('m1', 'main')],
                          teardown=[mk('tw', 'teardown', waits=True), mk('t2', 'teardown')]), mk('after', 'main')]
  elif program in ('group_deaf', 'group_deaf0'):
    nodes = [h.PhaseGroup(setup=[with_plug(mk('s', 'setup'))], main=[mk('m1', 'main', deaf=True), mk('m2', 'main')],
                          teardown=[mk('t1', 'teardown'), mk('t2', 'teardown')]), mk('after', 'main')]
  elif program == 'repeat':
    nodes = [with_plug(mk('r', 'main', rets=[h.PhaseResult.REPEAT, h.PhaseResult.REPEAT])), mk('z', 'main')]
  elif program == 'subtest':
    nodes = [h.Subtest('st', with_plug(mk('x', 'main')), mk('y', 'main')), mk('z', 'main')]
  elif program == 'trigger':
    nodes = [with_plug(mk('a', 'main'))]
    test_start = mk('trigger', 'test_start')
  elif program == 'nested_main':
    inner = h.PhaseGroup(setup=[mk('s2', 'setup')], main=[mk('n1', 'main')], teardown=[mk('u1', 'teardown')])
    nodes = [h.PhaseGroup(setup=[with_plug(mk('s', 'setup'))], main=[mk('m1', 'main'), inner, mk('m2', 'main')],
                          teardown=[mk('t1', 'teardown')]), mk('after', 'main')]
  elif program == 'nested_td':
    inner = h.PhaseGroup(setup=[mk('s2', 'teardown')], main=[mk('n1', 'teardown')], teardown=[mk('u1', 'teardown')])
    nodes = [h.PhaseGroup(setup=[with_plug(mk('s', 'setup'))], main=[mk('m1', 'main')],
                          teardown=[mk('t1', 'teardown'), inner, mk('t2', 'teardown')]), mk('after', 'main')]
  elif program == 'group_in_subtest':
    nodes = [h.Subtest('st', with_plug(mk('x', 'main')),
                       h.PhaseGroup(setup=[mk('s', 'setup')], main=[mk('m1', 'main')], teardown=[mk('t1', 'teardown'), mk('t2', 'teardown')]),
                       mk('y', 'main')), mk('after', 'main')]
  else:
    raise AssertionError(program)
  return h.Test(*nodes), test_start


def _gate_filter_quick(sched, me):
  """Abort moments offered in the quick tier: while a phase body is at a yield point / asleep, and at the
  executor's lines between phases, around phase start and in the teardown / finalization code."""
  if me is None:
    return False
  lab = me.label
  if lab.startswith(('b1:', 'b2:', 'sleep', 'ptd:')):
    return True
  return lab.startswith(('L:_execute_abortable_sequence', 'L:_execute_teardown_sequence', 'L:_execute_phase_once',
                         'L:_thread_proc', 'L:_execute_test_teardown', 'L:_execute_phase:', 'L:execute_phase',
                         'L:_execute_test_start', 'L:running_phase_context'))


def _gate_filter_body(sched, me):
  return me is not None and me.label.startswith(('b1:', 'b2:', 'sleep', 'ptd:'))


def _gate_filter_main(sched, me):
  return me is not None and me.label in ('b1:m1', 'b2:m1', 'b1:m2', 'b2:m2')


def _signal_filter_free(sched, me):
  """Delivery moments of free (cost 0) SIGINTs: while some phase / plug body is at a yield point or asleep, and at
  every line of Test.execute() on the main thread."""
  if me is None:
    return False
  if me.label.startswith(('b1:', 'b2:', 'sleep', 'ptd:')):
    return True
  return me.tid == 0 and me.label.startswith(('L:execute:', 'thread.start:TestExecutor'))


def _gate_filter_tdgap(sched, me):
  """Second abort of mode 'tdgap': while the executor walks from one teardown node to the next."""
  return me is not None and me.label.startswith('L:_execute_teardown_sequence')


GATE_MODES = {'wide': _gate_filter_quick, 'body': _gate_filter_body, 'main': _gate_filter_main, 'all': lambda sched, me: True}
GATE_FILTER = [_gate_filter_quick]


def scenario(program, aborts, via, mode=None):
  h, pe, td, te, ts, th = mods()

  def fn(sched):
    test, test_start = build(program, None)
    recs = []

    def cb(rec):
      runtime.vlog('callback', rec.outcome.name if rec.outcome else None, time.monotonic())
      recs.append(rec)

    test.add_output_callbacks(cb)
    td.Test.HANDLED_SIGINT_ONCE = False
    # process-wide state an earlier execution may have left behind when execute() was torn apart by a KeyboardInterrupt
    td.Test.TEST_INSTANCES.clear()
    import logging  # pylint: disable=g-import-not-at-top
    hl = logging.getLogger('openhtf')
    for hd in [x for x in hl.handlers if type(x).__name__ == 'RecordHandler']:
      hl.removeHandler(hd)
    at = None
    if via == 'thread':
      gates = [threading.Event() for _ in range(aborts)]

      def aborter():
        for i in range(aborts):
          gates[i].wait()           # opened by the explorer: "the operator aborts now"
          runtime.vlog('abort-call', i, time.monotonic())
          test.abort_from_sig_int()
          runtime.vlog('abort-return', i)

      if mode == 'overlap':
        # two operators (threads) abort independently: the second call may arrive while the first is still inside abort()
        def one_abort(i):
          gates[i].wait()
          runtime.vlog('abort-call', i, time.monotonic())
          test.abort_from_sig_int()
          runtime.vlog('abort-return', i)

        extra_aborters = [threading.Thread(target=one_abort, args=(i,), name='aborter%d' % i) for i in range(1, aborts)]
        for x in extra_aborters:
          x.start()

        def aborter():  # pylint: disable=function-redefined
          one_abort(0)
      at = threading.Thread(target=aborter, name='aborter')
      at.start()
      if mode == 'tdgap':
        # preemptions are spent on the aborting thread only (paused in the middle of abort()); everything else keeps
        # running whenever it can
        sched.preempt_filter = lambda me, label: me.name == 'aborter' and label.startswith(('L:abort:', 'L:_stop_phase_executor:'))
      prev = None
      for gi, g in enumerate(gates):
        flt = GATE_FILTER[0]
        if mode == 'tdgap':       # first abort during a main body, second one between two teardown nodes
          flt = _gate_filter_main if gi == 0 else _gate_filter_tdgap
        if mode == 'overlap':
          # first abort while the (deaf) main body runs; the second one while the first caller waits inside abort() for the
          # phase to die
          flt = _gate_filter_main if gi == 0 else (lambda sched_, me: me is not None and me.name == 'aborter' and me.label.startswith('sleep'))
        prev = sched.add_gate(g, 'aborter' if (mode != 'overlap' or gi == 0) else 'aborter%d' % gi, flt=flt, cost=0, after=prev)
    else:
      sched.signal_handler = lambda: (runtime.vlog('sigint', bool(td.Test.TEST_INSTANCES), test._executor is not None,  # pylint: disable=protected-access
                                                   not td.Test.HANDLED_SIGINT_ONCE,
                                                   any(t.name.startswith('TestExecutorThread') and t.state == 'done'
                                                       for t in sched.threads)), td.Test.handle_sig_int(2, None))
      # SIGINT is delivered on the main thread at any line of execute() (before the test is registered for it the
      # process-wide default handler raises KeyboardInterrupt)
      sched.signal_enabled = lambda: True
      if mode in ('free', 'second'):
        sched.signal_cost = 0
        sched.signal_enabled = lambda: _signal_filter_free(sched, sched.current)
      sched.signals_left = aborts
      if mode == 'second':
        # the same Test object has already been executed once (undisturbed) in this process: the Ctrl-C arrives during
        # its second run
        sched.signals_left = 0
        first = test.execute(test_start=test_start)
        runtime.vlog('first-run', first)
        del recs[:]
        del sched.events[:]
        td.Test.HANDLED_SIGINT_ONCE = False
        sched.signals_left = aborts
    res = None
    reexec = None
    OVER[0] = False
    if program == 'group_deaf0':
      # the station is configured not to wait for cancelled phases at all
      from openhtf.util import configuration  # pylint: disable=g-import-not-at-top
      configuration.CONF.load(cancel_timeout_s=0)
    runtime.vlog('execute-call')
    try:
      res = test.execute(test_start=test_start)
    except KeyboardInterrupt:
      res = 'KeyboardInterrupt'
    finally:
      sched.signals_left = 0
      OVER[0] = True
      if program == 'group_deaf0':
        configuration.CONF.reset()
    runtime.vlog('execute-return', res)
    n_first = len(recs)
    if via == 'sigint' and res == 'KeyboardInterrupt' and not recs and not any(e[0] == 'body-start' for e in sched.events):
      # interrupted before the run began: the Test must still be usable
      try:
        reexec = test.execute(test_start=test_start)
      except td.InvalidTestStateError:
        reexec = 'InvalidTestStateError'
      runtime.vlog('re-execute', reexec)
    if at is not None:
      for g in gates:
        g.set()          # never-fired gates: let the aborter finish (the test is over: "no running test")
      at.join()
      if mode == 'overlap':
        for x in extra_aborters:
          x.join()
    rec = recs[0] if n_first else None
    return {'res': res, 'outcome': rec.outcome.name if rec is not None and rec.outcome else None, 'n_callbacks': n_first,
            'phases': [(p.name, p.outcome.name if p.outcome else None) for p in rec.phases] if rec is not None else [],
            'state_left': test.state is not None, 'reexec': reexec}

  return fn


def execute(cfg, choices):
  program, aborts, via = cfg[:3]
  mode = cfg[3] if len(cfg) > 3 else None
  DEAF_NAP[0] = 70.0 if mode == 'overlap' else 0.5
  GATE_FILTER[0] = GATE_MODES.get(mode if via == 'thread' and mode else 'wide', _gate_filter_quick)
  sched, value = explore.run_under_scheduler(
      scenario(program, aborts, via, mode), choices, focus_targets=focus(), focus_files=FOCUS_FILES, max_steps=60000,
      line_watch=LINE_WATCH)
  ev = list(sched.events)
  result = {'value': value if isinstance(value, dict) else repr(value), 'events': ev,
            'failure': repr(sched.failure) if sched.failure else None}
  if isinstance(value, dict):
    result['outcome_key'] = (value['outcome'], value['res'], tuple(e[:3] for e in ev if e[0].startswith('body')))
  else:
    result['outcome_key'] = ('failure', repr(sched.failure or value)[:120])
  return explore.Exec(list(choices), sched.points, result, sched.failure, sched.steps, len(sched.trace), sched.state_hashes)


_ANCHOR = {}


def after_kill_lineno():
  """Line in PhaseExecutor.stop() executed right after phase_thread.kill() returned (text anchor)."""
  if 'n' not in _ANCHOR:
    import inspect  # pylint: disable=g-import-not-at-top
    h, pe, td, te, ts, th = mods()
    src, start = inspect.getsourcelines(pe.PhaseExecutor.stop)
    _ANCHOR['n'] = -1
    for i, line in enumerate(src):
      if 'phase_thread.kill()' in line:
        for j in range(i + 1, len(src)):
          if src[j].strip() and not src[j].strip().startswith('#'):
            _ANCHOR['n'] = start + j
            break
        break
  return _ANCHOR['n']


def analyse(cfg, ex):
  """Returns list of (kind, what).  Shared by C04 and (single abort, groups) C03.

  For SIGINT runs the consequences of a signal that hit one of execute()'s unprotected windows are reported as ONE
  violation naming that window (the consequences vary wildly with the schedule: lost callbacks, orphaned run, Test
  left 'running', AttributeError...); everything else is judged by the ordinary rules."""
  raw = _analyse_raw(cfg, ex)
  if cfg[2] != 'sigint' or not raw or raw[0][0] == 'sigint-nested-handler-deadlock' or ex.failure is not None:
    # (a run that does not come back at all -- deadlock, livelock -- is never folded into a window signature: the
    # known consequences of the unprotected windows are wrong output and leaked registrations, not hangs)
    return raw
  sig = [e for e in ex.result['events'] if e[0] == 'sigint']
  zones = sigint_zones(ex)
  detail = '; '.join('%s: %s' % (k, w[:160]) for k, w in raw[:4])
  for i, e in enumerate(sig):
    registered, has_executor = e[1], e[2]
    if not registered and has_executor:
      return [('sigint-while-unregistered', 'SIGINT #%d arrived while an executor existed but the Test was not registered for '
               'SIGINT (zone %s): the process default handler raised KeyboardInterrupt instead of aborting the run. '
               'Consequences here: %s' % (i + 1, zones[i] if i < len(zones) else '?', detail))]
  for i, e in enumerate(sig):
    if i < len(zones) and zones[i] == 'finishing' and e[3]:
      return [('sigint-in-finally-block', 'SIGINT #%d arrived while execute() was in its finally block (the run itself was '
               'over) and the handler raised KeyboardInterrupt there. Consequences here: %s' % (i + 1, detail))]
  return raw


def _analyse_raw(cfg, ex):
  program, aborts, via = cfg[:3]
  out = []
  ev = ex.result['events']
  v = ex.result['value']
  if ex.failure is not None:
    if via == 'sigint' and aborts == 2 and type(ex.failure).__name__ == 'Deadlock' and \
        "('main', 'blocked', 'lock.wait@test_descriptor.py')" in str(ex.failure):
      out.append(('sigint-nested-handler-deadlock', 'a second SIGINT arrived while the handler of the first one held '
                  'Test._lock: the nested handler blocks on that lock forever: %s' % (ex.failure,)))
      return out
    out.append(('no-return:%s' % type(ex.failure).__name__, 'execute() did not return: %s' % (ex.failure,)))
    return out
  if not isinstance(v, dict):
    out.append(('harness-exception', 'scenario raised %r' % (v,)))
    return out
  names = [e[0] for e in ev]
  zones = sigint_zones(ex) if via == 'sigint' else []
  if zones[:1] == ['prestart']:
    # SIGINT before the executor thread exists: nobody is registered, the default handler raises KeyboardInterrupt.
    # No run may go on behind the caller's back and the Test must remain usable.
    if v['res'] != 'KeyboardInterrupt':
      out.append(('prestart-no-keyboardinterrupt', 'SIGINT before the run started but execute() returned %r' % (v['res'],)))
    first_ret = names.index('execute-return') if 'execute-return' in names else len(ev)
    if any(e[0] == 'body-start' for e in ev[:first_ret]) or v['n_callbacks']:
      out.append(('prestart-run-went-on', 'SIGINT before the run started, yet phase bodies ran / callbacks were called'))
    if v['reexec'] not in (True, False):
      out.append(('prestart-test-unusable', 'after KeyboardInterrupt left execute() before the run started, a new '
                  'execute() gives %r' % (v['reexec'],)))
    return out
  # abort() calls on the executor (line watch: first line of TestExecutor.abort) and their returns
  abort_first_line = min([e[3] for e in ev if e[0] == 'line' and e[2] == 'abort'] or [0])
  abort_begin = [i for i, e in enumerate(ev) if e[0] == 'line' and e[2] == 'abort' and e[3] == abort_first_line]
  if via == 'thread':
    abort_return = [i for i, e in enumerate(ev) if e[0] == 'abort-return']
    effective_returns = [r for r in abort_return if any(b < r for b in abort_begin)]
    # the k-th return is effective only if an executor.abort() began in that call: pair them in order
    effective_returns = []
    calls = [i for i, e in enumerate(ev) if e[0] == 'abort-call']
    for c, r in zip(calls, abort_return):
      if any(c < b < r for b in abort_begin):
        effective_returns.append(r)
  else:
    # SIGINT: the handler runs abort synchronously on the main thread; it has returned when the next event of main appears.
    effective_returns = []
    for b in abort_begin:
      later = [i for i, e in enumerate(ev) if i > b and not (e[0] == 'line' and e[2] == 'abort')]
      # abort() has certainly returned once execute() re-raised / returned; use a conservative marker: none
    effective_returns = []
  fin_begin = [i for i, e in enumerate(ev) if e[0] == 'line' and e[2] == '_execute_test_teardown']
  fin_begin = fin_begin[0] if fin_begin else None
  finalized = [i for i, e in enumerate(ev) if e[0] == 'line' and e[2] == '_finalize']
  finalized_at = finalized[-1] if finalized else None
  callbacks = [i for i, e in enumerate(ev) if e[0] == 'callback']
  # (2) no two bodies at once
  running = None
  for i, e in enumerate(ev):
    if e[0] == 'body-start':
      if running is not None:
        out.append(('overlap', 'body %s started while body %s was still running' % (e[1], running)))
      running = e[1]
    elif e[0] in ('body-end', 'body-killed'):
      if running == e[1]:
        running = None
    elif e[0] == 'async_exc' and running is not None and '(%s)' % running in e[1]:
      # the framework has asked this body to die; a body that is slow to notice is abandoned by design
      running = None
  # (3) nothing new starts after an abort() call has returned
  if effective_returns:
    first_ret = effective_returns[0]
    for i, e in enumerate(ev):
      if e[0] == 'body-start' and i > first_ret and e[2] in ('main', 'setup', 'test_start'):
        out.append(('started-after-abort:%s' % e[2],
                    '%s body %s (invocation %d) started after abort() had returned' % (e[2], e[1], e[3])))
  # (3b) the running phase was asked to terminate: once that request (kill()) has returned, its body must not begin
  akl = after_kill_lineno()
  kill_returned = [i for i, e in enumerate(ev) if e[0] == 'line' and e[2] == 'stop' and e[3] == akl]
  if kill_returned:
    for i, e in enumerate(ev):
      if e[0] == 'body-start' and i > kill_returned[0] and e[2] in ('main', 'setup', 'test_start'):
        out.append(('started-after-kill-request:%s' % e[2],
                    '%s body %s began after the termination request for the phase thread had returned' % (e[2], e[1])))
  aborted_effectively = bool(abort_begin)
  # (4) teardown of entered groups + plug tearDown after a single abort
  if aborts == 1 or not aborted_effectively:
    out.extend(group_rules(program, ev))
    if 'plug-init' in names and 'plug-teardown' not in names:
      out.append(('no-plug-teardown', 'a plug was constructed but its tearDown never ran'))
  # (5) outcome
  if effective_returns and fin_begin is not None and effective_returns[0] < fin_begin:
    if v['outcome'] != 'ABORTED':
      out.append(('not-aborted', 'abort() returned before finalization began but outcome is %s' % v['outcome']))
  if abort_begin and fin_begin is not None and abort_begin[0] < fin_begin and v['outcome'] == 'PASS' and effective_returns and effective_returns[0] < fin_begin:
    out.append(('pass-after-abort', 'outcome PASS although abort() returned before finalization'))
  # (5b) the outcome is decided after plug tearDown: an abort that returned while a plug was still being torn down counts
  plug_td_end = [i for i, e in enumerate(ev) if e[0] == 'plug-teardown']
  if effective_returns and plug_td_end and effective_returns[0] < plug_td_end[-1] and v['outcome'] != 'ABORTED':
    out.append(('not-aborted-during-plug-teardown',
                'abort() returned before the plugs were torn down but the outcome is %s' % v['outcome']))
  # (6) callbacks exactly once
  if v['n_callbacks'] != 1:
    out.append(('callbacks', 'output callback called %d times' % v['n_callbacks']))
  # (8) nothing starts after the record was finalized
  if finalized_at is not None:
    for i, e in enumerate(ev):
      if e[0] == 'body-start' and i > finalized_at:
        out.append(('started-after-finalize', 'body %s started after the record was finalized' % e[1]))
  # (7) second abort
  if aborts == 2 and via == 'thread' and len(effective_returns) == 2:
    second = effective_returns[1]
    for i, e in enumerate(ev):
      if e[0] == 'body-start' and e[2] == 'teardown' and i > second:
        out.append(('teardown-after-second-abort', 'teardown body %s started after the second abort() returned' % e[1]))
  if len(cfg) > 3 and cfg[3] == 'overlap':
    # two callers: the second request arrives while the first caller is still inside abort() (waiting for the phase to die).
    # It has to wait its turn and then act -- it must not come back before the first one without having asked the executor
    calls = [i for i, e in enumerate(ev) if e[0] == 'abort-call']
    rets = {e[1]: i for i, e in enumerate(ev) if e[0] == 'abort-return'}
    over = [i for i, e in enumerate(ev) if e[0] in ('plug-teardown-begin', 'execute-return')]
    if len(calls) == 2 and 0 in rets and 1 in rets and rets[1] < rets[0] and calls[1] > calls[0] and over and rets[1] < over[0] and \
        any(calls[0] < b < rets[0] for b in abort_begin):
      if not any(calls[1] < b < rets[1] for b in abort_begin):
        out.append(('overlapping-abort-dropped', 'a second abort request made while the first caller was still inside abort() returned '
                    'at once without reaching the executor: the request was dropped'))
  if program == 'group_tdwait' and via == 'thread' and aborts == 2:
    # a second abort issued while the waiting teardown phase runs cancels it: the run is over within cancel_timeout_s
    # (2 s) and some slack -- not when the teardown phase reaches its own timeout (180 s)
    calls = [i for i, e in enumerate(ev) if e[0] == 'abort-call']
    tw_start = [i for i, e in enumerate(ev) if e[0] == 'body-start' and e[1] == 'tw']
    tw_over = [i for i, e in enumerate(ev) if (e[0] in ('body-killed', 'body-end') and e[1] == 'tw') or
               (e[0] == 'async_exc' and '(tw)' in str(e[1])) or e[0] in ('plug-teardown-begin', 'execute-return')]
    if len(calls) == 2 and tw_start and tw_start[0] < calls[1] and (not tw_over or calls[1] < min(x for x in tw_over if x > tw_start[0])):
      cbs = [e for e in ev if e[0] == 'callback']
      t_abort = ev[calls[1]][2]
      if not cbs:
        out.append(('second-abort-did-not-cancel-teardown', 'second abort while the teardown phase tw ran: the run never ended'))
      elif cbs[0][2] - t_abort > 10.0:
        out.append(('second-abort-did-not-cancel-teardown', 'second abort while the waiting teardown phase tw ran: the record was '
                    'output %.1f virtual seconds later (cancel_timeout_s is 2 s; tw\'s own timeout 180 s)' % (cbs[0][2] - t_abort)))
  if v['res'] not in (True, False, 'KeyboardInterrupt'):
    out.append(('bad-return', 'execute() returned %r' % (v['res'],)))
  if v['state_left']:
    out.append(('state-left', 'Test.state still set after execute() returned'))
  return out


# per program: groups as (setup names, main names incl. nested, direct teardown phase names)
GROUPS = {
    'group': [(['s'], ['m1', 'm2'], ['t1', 't2'])],
    'group_deaf': [(['s'], ['m1', 'm2'], ['t1', 't2'])],
    'group_deaf0': [(['s'], ['m1', 'm2'], ['t1', 't2'])],
    'group_tdwait': [(['s'], ['m1'], ['tw', 't2'])],
    'nested_main': [(['s'], ['m1', 's2', 'n1', 'u1', 'm2'], ['t1']), (['s2'], ['n1'], ['u1'])],
    # (the group nested in the teardown is itself a teardown node of the outer group: all of it runs, once)
    'nested_td': [(['s'], ['m1'], ['t1', 's2', 'n1', 'u1', 't2']), (['s2'], ['n1'], ['u1'])],
    'group_in_subtest': [(['s'], ['m1'], ['t1', 't2'])],
}


def group_rules(program, ev):
  """C03 trace predicate under a single abort: entered => every teardown body exactly once, after main, before
  plug tearDown; setup not completed => no main / teardown body of that group."""
  out = []
  names = [e for e in ev if e[0] in ('body-start', 'body-end', 'body-killed', 'plug-teardown')]
  pos = {}
  for i, e in enumerate(names):
    pos.setdefault((e[0], e[1] if len(e) > 1 else None), []).append(i)
  plug_td = pos.get(('plug-teardown', None), [None])[0]
  for setup, main, td in GROUPS.get(program, []):
    reached = all(('body-start', x) in pos for x in setup)
    entered = reached and all(('body-end', x) in pos for x in setup)
    if entered:
      main_pos = [i for m in main for i in pos.get(('body-start', m), [])]
      for t in td:
        n = len(pos.get(('body-start', t), []))
        if n != 1:
          out.append(('teardown-count', 'group with setup %r was entered but teardown %s started %d times (single abort)' % (setup, t, n)))
          continue
        tp = pos[('body-start', t)][0]
        if main_pos and tp < max(main_pos):
          out.append(('teardown-before-main', 'teardown %s started before main body activity of its group ended' % t))
        if plug_td is not None and plug_td < tp:
          out.append(('teardown-after-plug-teardown', 'teardown %s started after plug tearDown' % t))
        if ('body-end', t) not in pos and ('body-killed', t) in pos:
          out.append(('teardown-killed', 'teardown %s was killed by a single abort' % t))
    elif any(('body-start', x) in pos for x in setup):
      for x in main + td:
        if x not in setup and ('body-start', x) in pos:
          out.append(('ran-without-setup', 'setup %r did not complete but %s ran' % (setup, x)))
  return out


def sigint_zones(ex):
  """Where each SIGINT landed: prestart (no executor thread yet), startup (thread started, execute() not yet
  waiting), waiting, finishing (executor thread done: execute() is in its finally block)."""
  seen_wait = False
  exec_done = False
  started = False
  zones = []
  for p in ex.points:
    if p['tid'] == 0 and p['label'].startswith('thread.start:TestExecutor'):
      started = True
    if p['tid'] == 0 and p['label'].startswith(('thread.join:TestExecutor', 'event.wait@test_executor')):
      seen_wait = True
    if p['label'].startswith('exit:TestExecutorThread'):
      exec_done = True
    if p['kinds'][p['choice']].startswith('signal'):
      if exec_done:
        zones.append('finishing')
      else:
        zones.append('waiting' if seen_wait else ('startup' if started else 'prestart'))
  # the handler logged whether the executor thread had already finished: that is the authoritative "finishing"
  sig = [e for e in ex.result['events'] if e[0] == 'sigint']
  for i, e in enumerate(sig):
    if i < len(zones) and len(e) > 4 and e[4]:
      zones[i] = 'finishing'
  return zones


def sigint_zone(ex):
  z = sigint_zones(ex)
  return '+'.join(z) if z else 'none'


def check(cfg):
  def chk(ex):
    rep = {'part': 'abort', 'cfg': list(cfg), 'choices': ex.choices}
    zone = (':' + sigint_zone(ex)) if cfg[2] == 'sigint' else ''
    return [('%s:%s:%dx%s%s' % (k, cfg[0], cfg[1], cfg[2], zone), '%s aborts=%d via %s: %s; body events %r'
             % (cfg[0], cfg[1], cfg[2], w, [e[:4] for e in ex.result['events'] if e[0] != 'line'][:40]), rep) for k, w in analyse(cfg, ex)]
  return chk


def configs(tier):
  if tier == 'quick':
    return [(('plain3', 1, 'thread', 'wide'), 0), (('group', 1, 'thread', 'wide'), 0), (('trigger', 1, 'thread', 'wide'), 0),
            (('repeat', 1, 'thread', 'wide'), 0), (('subtest', 1, 'thread', 'wide'), 0),
            (('group', 1, 'thread', 'main'), 1), (('group', 2, 'thread', 'body'), 0), (('plain3', 1, 'sigint'), 1),
            (('group', 2, 'sigint', 'free'), 0), (('group', 2, 'thread', 'tdgap'), 1), (('nested_td', 1, 'thread', 'wide'), 0), (('group_tdwait', 2, 'thread', 'body'), 0),
            (('group', 1, 'sigint', 'second'), 0), (('group_deaf', 2, 'thread', 'overlap'), 0),
            (('plain3_noarg', 1, 'thread', 'wide'), 0)]
  return [(('plain3', 1, 'thread', 'all'), 1), (('group', 1, 'thread', 'all'), 1), (('trigger', 1, 'thread', 'all'), 1),
          (('repeat', 1, 'thread', 'all'), 1), (('subtest', 1, 'thread', 'all'), 1), (('group', 1, 'thread', 'body'), 2),
          (('group', 2, 'thread', 'wide'), 0), (('group', 2, 'thread', 'body'), 1), (('plain3', 2, 'thread', 'body'), 1),
          (('plain3', 1, 'sigint'), 1), (('group', 1, 'sigint'), 1), (('trigger', 1, 'sigint'), 1), (('repeat', 1, 'sigint'), 1),
          (('subtest', 1, 'sigint'), 1), (('group', 2, 'sigint', 'free'), 0), (('plain3', 2, 'sigint', 'free'), 0),
          (('trigger', 2, 'sigint', 'free'), 0), (('subtest', 2, 'sigint', 'free'), 0), (('repeat', 2, 'sigint', 'free'), 0),
          (('group', 2, 'thread', 'tdgap'), 2), (('nested_td', 2, 'thread', 'tdgap'), 1)]


def run(tier):
  rep = common.Report(PID, tier, 'model_checking')
  explore.set_plan(common.thorough_budget(tier, 900.0), len(configs(tier)))
  for cfg, bound in configs(tier):
    # 'tdgap' (first abort in a main body, second between two teardown nodes, the aborting thread preemptible inside
    # abort()) is explored deviation-bounded: with free forced switches its 6 threads explode
    r = explore.explore('A:%r' % (cfg,), lambda ch, cfg=cfg: execute(cfg, ch), check(cfg), bound,
                        cap=30000 if tier == 'quick' else 400000, free_forced=not (len(cfg) > 3 and cfg[3] == 'tdgap'))
    rep.merge_violations(r['violations'])
    rep.add_part('%s aborts=%d via=%s gates=%s' % (cfg + ('-',))[:4], states=max(1, r['states']), transitions=r['steps'],
                 traces_validated_against_impl=r['executions'], deviation_bound=bound, distinct_outcomes=len(r['outcomes']),
                 exhaustive=not r['capped'], decision_points_default=r['default_points'], samples=r['samples'] or [{'choices': []}])
  rep.assumptions = [
      'phase bodies are harness-owned (two yield points and a 10 ms virtual sleep) and die at their next scheduling point when killed',
      'scheduling points: every source line of the abort / phase-start / finalization functions listed in focus(), every operation on '
      'primitives created in test_executor.py, phase_executor.py, threads.py, test_descriptor.py, thread start/exit/join',
      'an abort issued while the Test has no executor is "no running test" and is not judged; SIGINT is delivered only while execute() runs',
  ]
  return rep.finish(rule='stateless exploration under the controlled scheduler, all schedules within the deviation bound per program')


def replay(art):
  r = art['replay']
  cfg = tuple(r['cfg'])
  ex = execute(cfg, r['choices'])
  print('result', ex.result['value'])
  print('events', [e[:4] for e in ex.result['events'] if e[0] != 'line'])
  bad = analyse(cfg, ex)
  for b in bad:
    print('VIOLATED', b)
  return 1 if bad else 0
