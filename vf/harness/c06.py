"""C06 measurement outcome = validators on the recorded (transformed) value.

Bounded-exhaustive assignment histories executed inside a real phase
(Test.execute), compared with vf/ref/meas.py: recorded value, outcome, marginal
flag per measurement, exceptions at each assignment, rejected assignments, the
phase-level error when a validator raises.
"""
import itertools
import json
import math

from vf import common, htf, progs
from vf.ref import meas as ref

PID = 'C06'
NAN = float('nan')

SPECS = {
    'S0': {'kind': 'scalar'},
    'S1': {'kind': 'scalar', 'validators': ['r0_10m']},
    'S2': {'kind': 'scalar', 'transform': 'x2', 'validators': ['r0_10']},
    'S3': {'kind': 'scalar', 'transform': 'round0', 'validators': ['r0_10m']},
    'S4': {'kind': 'scalar', 'validators': ['r0_10', 'is_int']},
    'S5': {'kind': 'scalar', 'validators': ['boom11', 'r0_10m']},
    'S6': {'kind': 'scalar', 'validators': ['r0_100'], 'cond': ['A', 'r0_4']},
    'S7': {'kind': 'scalar', 'transform': 'roundm1', 'validators': ['r0_10']},     # precision -1: rounds to tens (11 -> 10, 5 -> 0)
    'D1': {'kind': 'dim1', 'validators': ['p_r0_10']},
    'D2': {'kind': 'dim1', 'transform': 'x2', 'validators': ['p_r0_10']},
    'D3': {'kind': 'dim2', 'validators': ['p_r0_10']},
    'D4': {'kind': 'dim1', 'validators': ['p_boom', 'p_r0_10']},
}
PAIRS = [('D4', 'D1'), ('D4', 'D3'), ('S1', 'D1'), ('S2', 'D2'), ('S4', 'D3'), ('S5', 'D4'), ('S6', 'S0'), ('S3', 'S1'), ('D1', 'D2'), ('S7', 'S0')]
SCALAR_VALUES = [5, 9.5, 11, 1, None, NAN, 'x', 10]     # (10 = 2 x 5: an override whose raw value equals the recorded one)
DIM_VALUES = [3, 11]


def build_validator(code):
  from openhtf.util import validators as v  # pylint: disable=g-import-not-at-top
  if code == 'r0_10':
    return v.in_range(0, 10)
  if code == 'r0_10m':
    return v.in_range(0, 10, marginal_minimum=2, marginal_maximum=8)
  if code == 'r0_4':
    return v.in_range(0, 4)
  if code == 'r0_100':
    return v.in_range(0, 100)
  if code == 'is_int':
    return lambda x: isinstance(x, int) and not isinstance(x, bool)
  if code == 'boom11':
    return ref.boom_on_11
  if code == 'p_r0_10':
    return v.dimension_pivot_validate(v.in_range(0, 10))
  if code == 'p_boom':
    return ref.boom_rows
  raise AssertionError(code)


def build_measurement(name, spec):
  L = progs.lib()
  h = L['htf']
  m = h.Measurement(name)
  if spec['kind'] == 'dim1':
    m = m.with_dimensions('x')
  elif spec['kind'] == 'dim2':
    m = m.with_dimensions('x', 'y')
  if spec.get('transform') == 'x2':
    m = m.with_transform(lambda v: v * 2)
  elif spec.get('transform') == 'round0':
    m = m.with_precision(0)
  elif spec.get('transform') == 'roundm1':
    m = m.with_precision(-1)
  for code in spec.get('validators', []):
    m = m.with_validator(build_validator(code))
  if spec.get('cond'):
    m = m.validate_on({getattr(L['R'], spec['cond'][0]): build_validator(spec['cond'][1])})
  return m


def ops_for(pair):
  """Operation alphabet for a pair of specs (names 'ma', 'mb')."""
  ops = []
  for name, code in zip(('ma', 'mb'), pair):
    kind = SPECS[code]['kind']
    if kind == 'scalar':
      ops += [['set', name, v] for v in SCALAR_VALUES]
    else:
      coords = [(0,), (1,)] if kind == 'dim1' else [(0, 0), (0, 1)]
      ops += [['setc', name, list(c), v] for c in coords for v in DIM_VALUES]
      ops.append(['set', name, 5])                       # dimensioned without coordinates
      ops.append(['peek', name])                         # the phase looks at what it has measured so far
      wrong = [0, 1] if kind == 'dim1' else [0]
      ops.append(['setc', name, wrong, 3])               # wrong number of coordinates
  ops.append(['set', 'undeclared', 5])
  return ops


def vkey(v):
  if isinstance(v, float) and math.isnan(v):
    return 'nan'
  return (type(v).__name__, repr(v))


def norm_value(v):
  if isinstance(v, list):
    return [tuple(vkey(x) for x in row) for row in v]
  return vkey(v)


def run_impl(pair, hist, diag_present, catch_last):
  L = progs.lib()
  h = L['htf']
  log = []
  ma = build_measurement('ma', SPECS[pair[0]])
  mb = build_measurement('mb', SPECS[pair[1]])

  def body(test):
    # handles on the dimensioned measurements, taken once at the start of the phase (a common style: `dim = test.measurements.dim`)
    handles = {}
    for nm, code in zip(('ma', 'mb'), pair):
      if SPECS[code]['kind'] != 'scalar':
        handles[nm] = test.measurements[nm]
    for i, op in enumerate(hist):
      last = i == len(hist) - 1
      try:
        if op[0] == 'peek':
          try:        # (reading a measurement that has no value yet raises by design: the look itself is the point)
            mv = test.measurements[op[1]]
            _ = (mv.value, str(mv), dict(mv))
          except Exception:  # pylint: disable=broad-except
            pass
          # ... other ways of looking that change nothing: an immutable copy for the phase, a station's state snapshot
          for look in (lambda: test.get_measurement(op[1]), lambda: test._running_test_state.asdict_with_event()):  # pylint: disable=protected-access
            try:
              look()
            except Exception:  # pylint: disable=broad-except
              pass
        elif op[0] == 'set':
          test.measurements[op[1]] = op[2]
        else:
          c = op[2]
          key = tuple(c) if len(c) != 1 else c[0]
          if op[1] in handles and c[-1] == 1 and len(c) == (1 if SPECS[pair[0 if op[1] == 'ma' else 1]]['kind'] == 'dim1' else 2):
            handles[op[1]][key] = op[3]            # through the handle taken at the start of the phase
          else:
            test.measurements[op[1]][key] = op[3]
        log.append(('ok',))
      except Exception as e:  # pylint: disable=broad-except
        log.append(('raised', type(e).__name__))
        if last and not catch_last:
          raise

  body.__name__ = 'mphase'
  ph = h.measures(ma, mb)(h.PhaseOptions(name='mphase')(body))
  nodes = [ph]
  if diag_present == 'internal':
    # the result is issued by an *internal* diagnosis (not listed in the test record, but it exists)
    dl, R = L['dl'], L['R']

    def pre_body(test):
      pass

    pre_body.__name__ = 'pre'
    pre = h.diagnose(dl.PhaseDiagnoser(R, name='pre_internal')(lambda rec: dl.Diagnosis(R.A, 'internal', is_internal=True)))(
        h.PhaseOptions(name='pre')(pre_body))
    nodes = [pre, ph]
  elif diag_present:
    pre = progs.make_phase('pre', {'ret': ['ok'], 'diag': ['A']}, progs.RunCtx())
    nodes = [pre, ph]
  res, recs, test, terr = htf.run_test(nodes)
  rec = recs[0]
  prec = [p for p in rec.phases if p.name == 'mphase'][0]
  out = {'log': log, 'phase_outcome': prec.outcome.name, 'phase_result': progs.result_kind(prec.result), 'meas': {}}
  for name in ('ma', 'mb'):
    m = prec.measurements[name]
    val = None
    if m.measured_value.is_value_set:
      val = m.measured_value.value
    out['meas'][name] = {'value': norm_value(val), 'outcome': m.outcome.name, 'marginal': bool(m.marginal)}
    # the record as it is handed on (output callbacks, station): the recorded value is there exactly when one was recorded
    rendered = m.as_base_types()
    has = 'measured_value' in rendered
    if has != bool(m.measured_value.is_value_set):
      out.setdefault('render_bad', []).append('%s: is_value_set=%s but the base-type record %s a measured_value (value %r)'
                                              % (name, m.measured_value.is_value_set, 'has' if has else 'has no', val))
    elif has and SPECS[pair[0 if name == 'ma' else 1]]['kind'] == 'scalar':
      from vf.ref import render as _render  # pylint: disable=g-import-not-at-top
      if not _render.same(_render.jsonish(rendered['measured_value']), _render.jsonish(_render.base(val))):
        out.setdefault('render_bad', []).append('%s: base-type record shows %r, recorded value is %r' % (name, rendered['measured_value'], val))
  # declared measurement objects must be untouched (they are copied per run)
  out['decl_outcomes'] = (ma.outcome.name, mb.outcome.name)
  return out


def run_ref(pair, hist, diag_present, catch_last):
  present = {'A'} if diag_present else set()
  ms = {'ma': ref.RefMeasurement(SPECS[pair[0]], present), 'mb': ref.RefMeasurement(SPECS[pair[1]], present)}
  log = []
  phase_exc = None
  for i, op in enumerate(hist):
    last = i == len(hist) - 1
    try:
      m = ms.get(op[1])
      if m is None:
        raise KeyError('NotAMeasurementError')
      if op[0] == 'peek':
        log.append(('ok',))
        continue
      if op[0] == 'set':
        if m.ndims():
          raise KeyError('InvalidDimensionsError')
        m.set_scalar(op[2])
      else:
        if len(op[2]) != m.ndims():
          raise KeyError('InvalidDimensionsError')
        m.set_dim(tuple(op[2]), op[3])
      log.append(('ok',))
    except ref.ValidatorRaised:
      log.append(('raised', 'validator'))
      if last and not catch_last:
        phase_exc = 'validator'
        break
    except ref.TransformRaised:
      log.append(('raised', 'transform'))
      if last and not catch_last:
        phase_exc = 'transform'
        break
    except KeyError as e:
      log.append(('raised', e.args[0]))
      if last and not catch_last:
        phase_exc = e.args[0]
        break
  end_exc = None
  for name in ('ma', 'mb'):
    try:
      ms[name].finish()
    except ref.ValidatorRaised:
      end_exc = end_exc or 'validator'
  out = {'log': log, 'meas': {}}
  for name in ('ma', 'mb'):
    m = ms[name]
    out['meas'][name] = {'value': norm_value(m.recorded()), 'outcome': m.outcome, 'marginal': m.marginal}
  if phase_exc is not None or end_exc is not None:
    out['phase_outcome'] = 'ERROR'
    out['phase_error'] = phase_exc or end_exc
  else:
    ok = all(m.outcome == 'PASS' for m in ms.values())
    out['phase_outcome'] = 'PASS' if ok else 'FAIL'
  return out


VALIDATOR_EXC = ('ValidatorRaised', 'TypeError', 'ValueError')


def compare(pair, hist, diag_present, catch_last=True):
  got = run_impl(pair, hist, diag_present, catch_last)
  exp = run_ref(pair, hist, diag_present, catch_last)
  bad = []
  # per-op results
  for i, (g, e) in enumerate(zip(got['log'], exp['log'])):
    if g[0] != e[0]:
      bad.append(('op-result', 'op %d %r: impl %r, reference %r' % (i, hist[i], g, e)))
    elif e[0] == 'raised':
      if e[1] in ('NotAMeasurementError', 'InvalidDimensionsError') and g[1] != e[1]:
        bad.append(('op-error-class', 'op %d %r: impl raised %s, expected %s' % (i, hist[i], g[1], e[1])))
  if len(got['log']) != len(exp['log']):
    bad.append(('op-count', 'impl executed %d ops, reference %d' % (len(got['log']), len(exp['log']))))
  for name in ('ma', 'mb'):
    g, e = got['meas'][name], exp['meas'][name]
    if g['outcome'] == 'PARTIALLY_SET':
      bad.append(('partially-set', '%s left the phase PARTIALLY_SET' % name))
    if g['value'] != e['value']:
      bad.append(('value:%s' % SPECS[pair[0 if name == 'ma' else 1]]['kind'], '%s recorded value %r, reference %r' % (name, g['value'], e['value'])))
    if g['outcome'] != e['outcome']:
      bad.append(('outcome', '%s outcome %s, reference %s (value %r)' % (name, g['outcome'], e['outcome'], g['value'])))
    if g['marginal'] != e['marginal']:
      bad.append(('marginal', '%s marginal=%s, reference %s (outcome %s value %r)' % (name, g['marginal'], e['marginal'], g['outcome'], g['value'])))
  if exp['phase_outcome'] == 'ERROR':
    if got['phase_outcome'] != 'ERROR' or not got['phase_result'].startswith('EXC:'):
      bad.append(('phase-error', 'a %s error must surface as an error of the phase; phase outcome %s result %s'
                  % (exp.get('phase_error'), got['phase_outcome'], got['phase_result'])))
  elif got['phase_outcome'] != exp['phase_outcome']:
    bad.append(('phase-outcome', 'phase outcome %s, reference %s' % (got['phase_outcome'], exp['phase_outcome'])))
  for msg in got.get('render_bad', []):
    bad.append(('rendered-value', msg))
  if got['decl_outcomes'] != ('UNSET', 'UNSET'):
    bad.append(('declaration-mutated', 'declared measurement objects changed: %r' % (got['decl_outcomes'],)))
  return bad, got


def histories(pair, depth):
  ops = ops_for(pair)
  for d in range(1, depth + 1):
    for h in itertools.product(ops, repeat=d):
      yield list(h)
  # one step deeper: two coordinates of one dimensioned measurement, then the FIRST one again (rows keep first-assignment order)
  if depth == 2:
    setcs = [o for o in ops if o[0] == 'setc']
    for a, b, c in itertools.product(setcs, repeat=3):
      if a[1] == b[1] == c[1] and a[2] == c[2] and a[2] != b[2] and len(a[2]) == len(b[2]):
        yield [a, b, c]
  # one step deeper for histories in which the phase looks at a measurement between two assignments
  for h in itertools.product(ops, repeat=depth + 1):
    if h[1][0] == 'peek' and h[0][0] != 'peek' and h[-1][0] != 'peek' and (depth == 2 or h[2][0] != 'peek'):
      yield list(h)


def hsig(pair, hist):
  def o(op):
    if op[0] == 'peek':
      return 'peek(%s)' % op[1]
    if op[0] == 'set':
      return '%s=%s' % (op[1], 'nan' if isinstance(op[2], float) and op[2] != op[2] else repr(op[2]))
    return '%s%s=%r' % (op[1], op[2], op[3])
  return '%s+%s: %s' % (pair[0], pair[1], '; '.join(o(x) for x in hist))


def _work(item):
  tier, pi, start, step = item
  pair = PAIRS[pi]
  depth = 2 if tier == 'quick' else 3
  n, viols, outcomes, sample = 0, [], set(), None
  for i, hist in enumerate(histories(pair, depth)):
    if i % step != start:
      continue
    for diag_present in ((False, True, 'internal') if 'S6' in pair else (False,)):
      variants = [True]
      if hist[-1][0] in ('set', 'setc'):
        variants.append(False)
      for catch_last in variants:
        n += 1
        bad, got = compare(pair, hist, diag_present, catch_last)
        outcomes.add(json.dumps(got['meas'], sort_keys=True, default=str))
        if sample is None and len(hist) == 2:
          sample = {'history': hsig(pair, hist), 'result': got['meas']}
        for kind, what in bad:
          viols.append(('%s:%s%s' % (kind, hsig(pair, hist), (' +A(internal)' if diag_present == 'internal' else ' +A') if diag_present else ''),
                        '%s%s%s: %s' % (hsig(pair, hist), ' (diag A present)' if diag_present else '',
                                        '' if catch_last else ' (last op not caught)', what),
                        {'pair': list(pair), 'hist': hist, 'diag_present': diag_present, 'catch_last': catch_last}))
  return n, viols, len(outcomes), sample


# ---- the same declared phase run several times (different DUTs): every run is judged on its own diagnosis results ----
RERUN_VALUES = [1, 5, 9.5, 150]


def rerun_sequence(seq):
  """seq: list of (diag_present, value) runs of ONE declared phase measuring S6 (conditional validator on result A)
  and S1.  Returns list of violations."""
  L = progs.lib()
  h = L['htf']
  ma = build_measurement('ma', SPECS['S6'])
  mb = build_measurement('mb', SPECS['S1'])
  cur = {}

  def body(test):
    test.measurements['ma'] = cur['v']
    test.measurements['mb'] = cur['v']

  body.__name__ = 'mphase'
  ph = h.measures(ma, mb)(h.PhaseOptions(name='mphase')(body))
  dl, R = L['dl'], L['R']

  def pre_diag(phase_record):
    return dl.Diagnosis(R.A, 'issued in this run') if cur['diag'] else None

  def pre_body(test):
    pass

  pre_body.__name__ = 'pre'
  pre = h.diagnose(dl.PhaseDiagnoser(R, name='pre_diag')(pre_diag))(h.PhaseOptions(name='pre')(pre_body))
  # ONE Test object executed again and again (a station testing DUT after DUT): whether result A is issued is
  # decided per run by the first phase's diagnoser
  test = h.Test(pre, ph)
  cap = htf.Capture()
  test.add_output_callbacks(cap)
  declared = [m for p in test.descriptor.phase_sequence.all_phases() for m in p.measurements]
  n_validators = (len(ma.validators), len(mb.validators), tuple(len(m.validators) for m in declared))
  bad = []
  for k, (diag_present, value) in enumerate(seq):
    cur['v'] = value
    cur['diag'] = diag_present
    del cap.records[:]
    test.execute()
    recs = list(cap.records)
    prec = [p for p in recs[0].phases if p.name == 'mphase'][0]
    exp = run_ref(('S6', 'S1'), [['set', 'ma', value], ['set', 'mb', value]], diag_present, True)
    for name in ('ma', 'mb'):
      m = prec.measurements[name]
      g = {'outcome': m.outcome.name, 'marginal': bool(m.marginal)}
      e = {'outcome': exp['meas'][name]['outcome'], 'marginal': exp['meas'][name]['marginal']}
      if g != e:
        bad.append(('rerun-outcome', 'run %d (result A %s, value %r): %s is %r, reference %r'
                    % (k, 'issued' if diag_present else 'absent', value, name, g, e)))
    if prec.outcome.name != exp['phase_outcome']:
      bad.append(('rerun-phase-outcome', 'run %d: phase outcome %s, reference %s' % (k, prec.outcome.name, exp['phase_outcome'])))
    now = (len(ma.validators), len(mb.validators), tuple(len(m.validators) for m in declared))
    if now != n_validators or any(m.outcome.name != 'UNSET' for m in [ma, mb] + declared):
      bad.append(('declaration-mutated', 'after run %d the declared measurements changed: validator counts %r -> %r, outcomes %r'
                  % (k, n_validators, now, [m.outcome.name for m in [ma, mb] + declared])))
  return bad


def repeat_sequence(vals, how):
  """One phase invoked len(vals) times in one run (REPEAT, or repeat_on_measurement_fail): the k-th record holds what the
  k-th invocation assigned -- scalar S1 and dimensioned D1 -- judged on its own."""
  L = progs.lib()
  h = L['htf']
  ma = build_measurement('ma', SPECS['S1'])
  mb = build_measurement('mb', SPECS['D1'])
  count = {'n': 0}

  def body(test):
    k = count['n']
    count['n'] += 1
    if vals[k] is not None:
      test.measurements['ma'] = vals[k]
      test.measurements['mb'][0] = vals[k]
    if how == 'repeat' and k < len(vals) - 1:
      return h.PhaseResult.REPEAT
    return None

  body.__name__ = 'mphase'
  opts = {'repeat_limit': len(vals)}
  if how == 'on_fail':
    opts['repeat_on_measurement_fail'] = True
  ph = h.measures(ma, mb)(h.PhaseOptions(name='mphase', **opts)(body))
  res, recs, test, terr = htf.run_test([ph])
  precs = [p for p in recs[0].phases if p.name == 'mphase']
  bad = []
  expected_runs = len(vals)
  if how == 'on_fail':
    expected_runs = 0
    for v in vals:
      expected_runs += 1
      e = run_ref(('S1', 'D1'), ([['set', 'ma', v], ['setc', 'mb', [0], v]] if v is not None else []), False, True)
      if e['phase_outcome'] != 'FAIL':
        break
  if len(precs) != expected_runs:
    bad.append(('repeat-count', 'values %r (%s): %d phase records, expected %d' % (vals, how, len(precs), expected_runs)))
  for k, prec in enumerate(precs[:expected_runs]):
    v = vals[k]
    exp = run_ref(('S1', 'D1'), ([['set', 'ma', v], ['setc', 'mb', [0], v]] if v is not None else []), False, True)
    for name in ('ma', 'mb'):
      m = prec.measurements[name]
      val = m.measured_value.value if m.measured_value.is_value_set else None
      g = {'value': norm_value(val), 'outcome': m.outcome.name, 'marginal': bool(m.marginal)}
      if g != exp['meas'][name]:
        bad.append(('repeat-record', 'invocation %d of %r (%s): record has %s = %r, that invocation assigned %r -> reference %r'
                    % (k, vals, how, name, g, v, exp['meas'][name])))
  return bad


def _work_repeats(item):
  tier, start, step = item
  values = [5, 9.5, 11, None]
  depth = 2 if tier == 'quick' else 3
  n, viols, k = 0, [], 0
  for how in ('repeat', 'on_fail'):
    for d in range(2, depth + 1):
      for vals in itertools.product(values, repeat=d):
        k += 1
        if k % step != start:
          continue
        n += 1
        for kind, what in repeat_sequence(list(vals), how):
          viols.append(('%s:%s:%r' % (kind, how, list(vals)), what, {'repeat_vals': list(vals), 'how': how}))
  return n, viols


def rsig(seq):
  return 'reruns: ' + ' | '.join('%s%r' % ('A:' if d else '-:', v) for d, v in seq)


def _work_reruns(item):
  tier, start, step = item
  depth = 2 if tier == 'quick' else 3
  runs = [(d, v) for d in (False, True) for v in RERUN_VALUES]
  n, viols = 0, []
  k = 0
  for d in range(2, depth + 1):
    for seq in itertools.product(runs, repeat=d):
      k += 1
      if k % step != start:
        continue
      n += 1
      for kind, what in rerun_sequence(list(seq)):
        viols.append(('%s:%s' % (kind, rsig(seq)), '%s: %s' % (rsig(seq), what), {'reruns': [list(x) for x in seq]}))
  return n, viols


def run(tier):
  rep = common.Report(PID, tier, 'model_checking')
  progs.lib()
  step = 8
  rr = common.pmap(_work_reruns, [(tier, s, 16) for s in range(16)], chunksize=1)
  for r in rr:
    rep.merge_violations(r[1])
  nrr = sum(r[0] for r in rr)
  rp = common.pmap(_work_repeats, [(tier, s, 8) for s in range(8)], chunksize=1)
  for r in rp:
    rep.merge_violations(r[1])
  nrp = sum(r[0] for r in rp)
  rep.add_part('repeated invocations within one run', states=nrp, transitions=nrp, traces_validated_against_impl=nrp, evaluations=nrp,
               exhaustive=True, samples=[{'values': [5, 9.5, 11, None], 'how': ['REPEAT', 'repeat_on_measurement_fail']}])
  rep.add_part('reruns-of-one-declared-phase', states=nrr, transitions=nrr, traces_validated_against_impl=nrr, evaluations=nrr,
               exhaustive=True, samples=[{'sequence': 'all sequences of 2 (3 in thorough) runs over {A issued, absent} x %r' % (RERUN_VALUES,)}])
  step = 8
  items = [(tier, pi, s, step) for pi in range(len(PAIRS)) for s in range(step)]
  res = common.pmap(_work, common.rotate(items), chunksize=1)
  n = sum(r[0] for r in res)
  samples = []
  for r in res:
    rep.merge_violations(r[1])
    if r[3] and len(samples) < 3:
      samples.append(r[3])
  rep.add_part('assignment-histories', states=n, transitions=n, traces_validated_against_impl=n, evaluations=n,
               distinct_nontrivial=sum(r[2] for r in res), exhaustive=True, samples=samples)
  rep.assumptions = [
      '7 pairs of measurement declarations out of 11 specs (scalar / transform / precision / marginal bands / two validators / '
      'raising validator / conditional validator / 1-D / 1-D+transform / 2-D / dimensioned raising validator); '
      'all assignment histories up to length 2 (3 in thorough) over 7 scalar values incl. None, NaN, str and 2 coordinates x 2 values, '
      'plus assignments without coordinates, with the wrong coordinate count and to an undeclared name',
      'histories run inside a real phase of a real Test; each op is wrapped in try/except except (variant) the last one',
  ]
  return rep.finish(rule='states = executed (pair, history, variant) cases compared with the reference model')


def fix_hist(hist):
  out = []
  for op in hist:
    op = list(op)
    if op[0] == 'set' and isinstance(op[2], str) and op[2] in ('nan', 'NaN'):
      op[2] = NAN
    out.append(op)
  return out


def replay(art):
  r = art['replay']
  if 'repeat_vals' in r:
    bad = repeat_sequence(r['repeat_vals'], r['how'])
    for b in bad:
      print('VIOLATED', b)
    return 1 if bad else 0
  if 'reruns' in r:
    bad = rerun_sequence([tuple(x) for x in r['reruns']])
    for b in bad:
      print('VIOLATED', b)
    return 1 if bad else 0
  hist = fix_hist(r['hist'])
  bad, got = compare(tuple(r['pair']), hist, r['diag_present'], r['catch_last'])
  print(hsig(tuple(r['pair']), hist), got)
  for b in bad:
    print('VIOLATED', b)
  return 1 if bad else 0
