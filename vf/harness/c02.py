"""C02 node execution vs docs/event_sequence.md: bounded-exhaustive program enumeration.

Every node tree up to the size/depth bound (vf.progs.shapes) x every assignment
of behaviours / checkpoint kinds / branch conditions from the alphabets below
is executed on the real TestExecutor (Test.execute) and compared with the
reference interpreter vf/ref/refexec.py: body call log (order, multiplicity),
phase / subtest / branch / checkpoint records, diagnoses and test outcome.
"""
import json

from vf import common, progs
from vf.ref import refexec

PID = 'C02'

LEAVES_FULL = [
    {'ret': ['ok']}, {'ret': ['fail']}, {'ret': ['fail_subtest']}, {'ret': ['stop']}, {'ret': ['raise']},
    {'ret': ['skip']}, {'ret': ['ok'], 'diag': ['A']}, {'ret': ['ok'], 'diag': ['FB']}, {'ret': ['ok'], 'diag': ['iA']},
]
LEAVES_SMALL = [{'ret': ['ok']}, {'ret': ['fail']}, {'ret': ['fail_subtest']}, {'ret': ['stop']}]
LEAVES_TINY = [{'ret': ['ok']}, {'ret': ['fail_subtest']}, {'ret': ['raise']}]
CKPT_FULL = [('last', 'stop'), ('all', 'stop'), ('subtest', 'fs'), ('last', 'fs'), ('any:A', 'stop'), ('not_any:A', 'fs')]
CKPT_SMALL = [('last', 'stop'), ('subtest', 'fs'), ('all', 'fs')]
BR_FULL = [['any', ['A']], ['not_any', ['A']], ['all', ['A', 'FB']], ['not_all', ['A', 'FB']]]
BR_SMALL = [['any', ['A']], ['not_any', ['A']]]

KEYS = ('calls', 'phases', 'subtests', 'branches', 'checkpoints', 'diagnoses', 'outcome', 'ret')


def families(tier):
  """(label, n_leaves, depth, kinds, leaf alphabet, ckpt alphabet, branch alphabet)."""
  allk = ['c', 'grp', 'sub', 'br']
  L3 = [{'ret': ['ok']}, {'ret': ['fail']}, {'ret': ['fail_subtest']}]
  fam = [
      ('k1d2', 1, 2, allk, LEAVES_FULL, CKPT_FULL, BR_FULL),
      ('k2d1', 2, 1, allk, LEAVES_FULL, CKPT_FULL, BR_FULL),
      ('k2d2', 2, 2, allk, LEAVES_SMALL, CKPT_SMALL, BR_SMALL),
      ('k3d1', 3, 1, ['grp', 'sub', 'c'], [{'ret': ['ok']}, {'ret': ['fail_subtest']}, {'ret': ['stop']}], CKPT_SMALL, BR_SMALL),
      ('k3d2sub', 3, 2, ['c', 'sub'], L3, CKPT_SMALL, BR_SMALL),
      # phases with a (false) run_if that are reached after their subtest has failed: skipped like any other, with a record
      ('k3d1rif', 3, 1, ['c', 'sub'], [{'ret': ['ok']}, {'ret': ['fail_subtest']}, {'ret': ['ok'], 'opts': {'run_if': 'false'}}],
       [('last', 'stop'), ('last', 'fs')], BR_SMALL),
  ]
  # teardown contents (checkpoints / branches nested in the teardown of a group), inside and outside a subtest that the
  # group's main (or an earlier node) may already have failed
  LT = [{'ret': ['ok']}, {'ret': ['fail_subtest']}, {'ret': ['ok'], 'diag': ['A']}, {'ret': ['stop']}]
  fam.append(('td2', 2, 1, 'teardown-templates', LT, CKPT_SMALL, BR_SMALL))
  if tier == 'thorough':
    fam.append(('td3', 3, 1, 'teardown-templates', LT[:3], CKPT_SMALL, BR_SMALL))
    fam += [
        ('k2d2full', 2, 2, allk, LEAVES_FULL, CKPT_SMALL, BR_SMALL),
        ('k3d1full', 3, 1, allk, LEAVES_SMALL + [{'ret': ['ok'], 'diag': ['A']}], CKPT_SMALL, BR_SMALL),
        ('k3d2', 3, 2, ['grp', 'sub', 'br'], [{'ret': ['ok']}, {'ret': ['fail_subtest']}], CKPT_SMALL, BR_SMALL),
        ('k3d2x', 3, 2, ['grp', 'br'], [{'ret': ['ok'], 'diag': ['A']}, {'ret': ['stop']}], CKPT_SMALL, BR_SMALL),
        ('k4d1', 4, 1, ['grp', 'sub'], LEAVES_TINY, CKPT_SMALL, BR_SMALL),
        ('k3d2cg', 3, 2, ['c', 'grp'], L3, CKPT_SMALL, BR_SMALL),
        ('k4d2sub', 4, 2, ['c', 'sub'], [{'ret': ['ok']}, {'ret': ['fail']}], [('subtest', 'fs'), ('last', 'stop')], BR_SMALL),
    ]
  return fam


def shape_iter(k, depth, kinds):
  if kinds != 'teardown-templates':
    return progs.shapes(k, depth, kinds)
  return teardown_templates(k, depth)


def teardown_templates(k, depth):
  """[pre] group(main: one leaf, teardown: T) [post], bare and wrapped in a subtest; T over all teardown-legal node lists
  with 1..k leaf slots (phases, checkpoints, branches nested up to `depth`)."""
  for n in range(1, k + 1):
    for t in progs.shapes(n, depth, ['c', 'br'], True, False):
      if all(x[0] == 'p' for x in t):
        continue      # plain phase teardowns are covered by the generic families
      grp = ['grp', [], [['p', None]], t]
      yield [grp]
      yield [grp, ['p', None]]
      yield [['sub', [grp]]]
      yield [['sub', [['p', None], grp]]]
      yield [['sub', [grp, ['p', None]]], ['p', None]]
  # a subtest as teardown node: inside it the rest of the teardown still runs after a failing node like anywhere in a teardown
  P = ['p', None]
  subs = [[['sub', [P, P]]], [['sub', [P]], P], [P, ['sub', [P]]]]
  if k >= 3:
    subs += [[['sub', [P, P]], P], [['sub', [P, ['c', None, None]]], P]]
  for t in subs:
    grp = ['grp', [], [['p', None]], t]
    yield [grp]
    yield [grp, ['p', None]]


def strip_calls(calls):
  return [c for c in calls if c[0] != 'run_if']


def compare(spec, settings=None):
  tree, _ = progs.number(spec)
  exp = refexec.execute(tree, settings)
  got = progs.run_spec(spec, settings)
  diffs = []
  if got.get('thread_errors'):
    diffs.append(('executor-crash', 'executor thread raised %r' % (got['thread_errors'],)))
  for k in KEYS:
    g, e = got.get(k), exp.get(k)
    if k == 'calls':
      g, e = strip_calls(g), strip_calls(e)
    if k in ('phases', 'subtests', 'branches', 'checkpoints', 'diagnoses', 'calls'):
      g = [tuple(x) for x in (g or [])]
      e = [tuple(x) for x in (e or [])]
    if g != e:
      diffs.append((k, '%s: impl %r, reference %r' % (k, g, e)))
  return diffs, got


def skeleton(spec):
  """Shape string without behaviours, for signatures."""
  def w(n):
    k = n[0]
    if k == 'p':
      b = n[1]
      return 'p(%s%s)' % (','.join(b.get('ret', ['ok'])), '+d' + ''.join(b['diag']) if b.get('diag') else '')
    if k == 'c':
      return 'c(%s,%s)' % (n[1], n[2])
    if k == 'seq':
      return 'seq[%s]' % ' '.join(map(w, n[1]))
    if k == 'sub':
      return 'sub[%s]' % ' '.join(map(w, n[1]))
    if k == 'br':
      return 'br(%s)[%s]' % (n[1][0], ' '.join(map(w, n[2])))
    return 'grp[%s|%s|%s]' % (' '.join(map(w, n[1])), ' '.join(map(w, n[2])), ' '.join(map(w, n[3])))
  return ' '.join(map(w, spec))


def _work(item):
  tier, fam_idx, start, step = item
  label, k, depth, kinds, leaves, ckpts, brs = families(tier)[fam_idx]
  n = 0
  viols = []
  outcomes = set()
  sample = None
  for i, shape in enumerate(shape_iter(k, depth, kinds)):
    if i % step != start:
      continue
    for spec in progs.fill(shape, leaves, ckpts, brs):
      n += 1
      diffs, got = compare(spec)
      outcomes.add((got.get('outcome'), len(got.get('phases') or []), len(got.get('calls') or [])))
      if sample is None and i > 5:
        sample = {'program': skeleton(spec), 'outcome': got.get('outcome'), 'calls': got.get('calls')}
      for kind, what in diffs:
        viols.append(('%s:%s' % (kind, skeleton(spec)), 'program %s: %s' % (json.dumps(spec), what), {'spec': spec}))
  return n, viols, sorted(outcomes), sample


def _nested_work(item):
  """Groups (with checkpoints in their setup) nested inside a teardown: excluded from the exact comparison (the
  document contradicts itself there), judged by C03's trace predicate instead: a sequence stops at its first terminal
  node -- also when that node is a checkpoint and also inside a teardown."""
  from vf.harness import c03  # pylint: disable=g-import-not-at-top
  tier, start, step = item
  n, viols = 0, []
  for i, (label, spec) in enumerate(c03.templates(tier)):
    if not label.startswith('ckpt') or i % step != start:
      continue
    n += 1
    obs = progs.run_spec(spec)
    for kind, what in c03.check_groups(spec, obs):
      viols.append(('nested:%s:%s' % (kind, skeleton(spec)), 'program %s: %s' % (json.dumps(spec), what), {'nested_spec': spec}))
  return n, viols


def run(tier):
  rep = common.Report(PID, tier, 'model_checking')
  nres = common.pmap(_nested_work, [(tier, s, 16) for s in range(16)], chunksize=1)
  for r in nres:
    rep.merge_violations(r[1])
  nn = sum(r[0] for r in nres)
  rep.add_part('checkpoint-in-setup (teardown-nested, trace predicate)', states=nn, transitions=nn, traces_validated_against_impl=nn,
               evaluations=nn, exhaustive=True, samples=[{'templates': 'ckpt-setup-in-teardown, ckpt-setup'}])
  fams = families(tier)
  step = common.NCPU * 4
  import time as _time  # pylint: disable=g-import-not-at-top
  t_begin = _time.time()
  budget = common.thorough_budget(tier, 1800.0)
  skipped = []
  for fi, fam in enumerate(fams):
    if budget is not None and _time.time() - t_begin > budget:
      skipped.append(fam[0])       # (thorough tier: no new family is started once the wall-clock budget is used up)
      continue
    items = [(tier, fi, s, step) for s in range(step)]
    res = common.pmap(_work, common.rotate(items), chunksize=1)
    n = sum(r[0] for r in res)
    outcomes = set()
    samples = []
    for r in res:
      rep.merge_violations(r[1])
      outcomes.update(map(tuple, r[2]))
      if r[3] and len(samples) < 2:
        samples.append(r[3])
    rep.add_part(fam[0], states=n, transitions=n, traces_validated_against_impl=n,
                 evaluations=n, distinct_nontrivial=len(outcomes), exhaustive=True,
                 leaves=fam[1], depth=fam[2], kinds=fam[3], samples=samples)
  rep.assumptions = [
      'programs: all trees with the stated number of leaf slots and nesting depth over the stated node kinds; '
      'plain nested sequences and groups/subtests inside teardown sequences are excluded from exact comparison '
      '(the document contradicts itself there; C03 covers them with trace predicates)',
      'behaviour alphabets per family are listed in vf/harness/c02.py; the "unbounded seeded sampling" part of the '
      'quantifier is outside this technique family and is not done',
  ]
  if skipped:
    rep.assumptions.append('families not started because the wall-clock budget of this run (%.0f s) was used up: %s'
                           % (budget, ', '.join(skipped)))
    rep.add_part('families skipped (budget)', states=0, transitions=0, traces_validated_against_impl=0, evaluations=0,
                 exhaustive=False, samples=[{'skipped': skipped}])
  return rep.finish(rule='states = programs executed on the real executor and compared with the reference interpreter; '
                         'distinct_nontrivial = distinct (outcome, #records, #calls) observations')


def replay(art):
  if 'nested_spec' in art['replay']:
    from vf.harness import c03  # pylint: disable=g-import-not-at-top
    spec = art['replay']['nested_spec']
    bad = c03.check_groups(spec, progs.run_spec(spec))
    for b in bad:
      print('VIOLATED', b)
    return 1 if bad else 0
  spec = art['replay']['spec']
  diffs, got = compare(spec)
  print('program', skeleton(spec))
  print('observed', {k: got.get(k) for k in KEYS})
  for d in diffs:
    print('MISMATCH', d)
  return 1 if diffs else 0
