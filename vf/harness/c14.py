"""C14 ADB streams: per-stream in-order exactly-once delivery, acks, flow control.

Outer enumeration: device scripts per stream and all their order-preserving
merges.  Inner exploration (Engine S): the host threads -- one reader per
stream, optionally a writer on the same stream -- under the controlled
scheduler with virtual time, line-level scheduling points in the multiplexer.
The device is a scripted, reactive fake transport (OPEN->OKAY, host WRTE->OKAY).
"""
import collections
import itertools
import struct
import threading
import time

from vf import common, usbstub
from vf.harness import c13
from vf.sched import explore, runtime

PID = 'C14'
MAXDATA = 4


def mods():
  usbstub.install()
  from openhtf.plugs.usb import adb_message, adb_protocol, usb_exceptions  # pylint: disable=g-import-not-at-top
  import libusb1  # pylint: disable=g-import-not-at-top
  return adb_message, adb_protocol, usb_exceptions, libusb1


class Device(object):
  """Scheduler-aware scripted device."""

  def __init__(self, ue, libusb1):
    self.ue, self.libusb1 = ue, libusb1
    self.out = collections.deque()     # chunks for the host: (tag, bytes-or-str)
    self.rx = []                       # decoded host messages
    self._hdr = None
    self.pending_ack = collections.Counter()   # remote-id -> OKAYs enqueued but not yet consumed by the host
    self.violations = []
    self.on_open = None
    self.consumed_wrte = collections.Counter()
    self.ack_delay = 0.0               # virtual seconds the device takes to acknowledge a host WRTE
    self.not_before = {}               # id(chunk tuple) -> virtual time at which it becomes readable

  def enqueue(self, cmd, a0, a1, data=''):
    b = c13.s2b(data)
    self.out.append(('hdr', cmd, a0, a1, c13.ref_header(cmd, a0, a1, b)))
    if b:
      self.out.append(('data', cmd, a0, a1, data))

  def write(self, data, timeout_ms=None):
    runtime.yield_point('dev.write')
    if self._hdr is None:
      raw = c13.s2b(data)
      if len(raw) != 24 or struct.unpack('<6I', raw)[0] ^ 0xFFFFFFFF != struct.unpack('<6I', raw)[5]:
        self.violations.append(('torn-frame', 'the device expected a 24-byte header and got %r: header and payload of two '
                                'host threads interleaved on the wire' % (raw[:30],)))
        return
      self._hdr = raw
      return
    w, a0, a1, n, ck, mg = struct.unpack('<6I', self._hdr)
    self._hdr = None
    cmd = c13.WORD_TO_CMD.get(w, '?')
    raw = c13.s2b(data)
    if len(raw) != n or (sum(raw) & 0xFFFFFFFF) != ck:
      self.violations.append(('torn-frame', 'payload %r does not match its header (%s, %d bytes, checksum %d): frames of two '
                              'host threads interleaved on the wire' % (raw[:30], cmd, n, ck)))
      return
    data = c13.b2s(raw)
    self.rx.append((cmd, a0, a1, data))
    if cmd == 'OPEN':
      remote = 100 + a0
      self.enqueue('OKAY', remote, a0)
      if self.on_open:
        self.on_open(a0, remote)       # e.g. the service starts talking right behind its OKAY
        # ... and the USB write of the OPEN itself returns late: whoever reads the connection meanwhile sees both
        time.sleep(0.05)
    elif cmd == 'WRTE':
      # a0 = host local id, a1 = our (remote) id
      if len(data) > MAXDATA:
        self.violations.append(('chunk-too-big', 'host WRTE with %d bytes > maxdata %d' % (len(data), MAXDATA)))
      if self.pending_ack[a0]:
        self.violations.append(('two-unacked-writes', 'host sent another WRTE on stream %d before consuming the OKAY of the previous one' % a0))
      self.pending_ack[a0] += 1
      k = len(self.out)
      self.enqueue('OKAY', a1, a0)
      if self.ack_delay:
        for item in list(self.out)[k:]:
          self.not_before[id(item)] = time.monotonic() + self.ack_delay

  def read(self, n, timeout_ms=None):
    runtime.yield_point('dev.read')
    waited = 0.0
    limit = (timeout_ms / 1000.0) if timeout_ms is not None else 1.0
    while not self.out or self.not_before.get(id(self.out[0]), 0) > time.monotonic():
      if waited >= limit:
        raise self.ue.UsbReadFailedError(self.libusb1.USBError(self.libusb1.LIBUSB_ERROR_TIMEOUT))
      time.sleep(0.005)
      waited += 0.005
    item = self.out.popleft()
    if item[0] == 'hdr' and item[1] == 'OKAY' and self.pending_ack[item[3]]:
      self.pending_ack[item[3]] -= 1
    if item[0] == 'hdr' and item[1] == 'WRTE':
      self.consumed_wrte[item[3]] += 1       # keyed by the host's local id
    return item[4]

  def close(self):
    pass


def merges(scripts):
  """All order-preserving merges of per-stream scripts; items are (stream index, item)."""
  idx = [0] * len(scripts)
  out = []

  def rec(acc):
    done = True
    for s, sc in enumerate(scripts):
      if idx[s] < len(sc):
        done = False
        idx[s] += 1
        rec(acc + [(s, sc[idx[s] - 1])])
        idx[s] -= 1
    if done:
      out.append(acc)

  rec([])
  return out


def scenario(scripts, merge, writer):
  am, ap, ue, libusb1 = mods()

  def fn(sched):
    dev = Device(ue, libusb1)
    conn = ap.AdbConnection(am.AdbTransportAdapter(dev), MAXDATA, 'device:ser:banner')
    streams = []
    late = isinstance(writer, dict) and writer.get('late_open')
    for s in range(1 if late else len(scripts)):
      st = conn.open_stream('svc%d' % s, timeout_ms=100)
      if st is None:
        return {'error': 'open failed'}
      streams.append(st)
    ids = [(st._transport.local_id, st._transport.remote_id) for st in streams]  # pylint: disable=protected-access
    if late:
      # the last stream is opened by its own thread while the reader of stream 0 is already at work; the device sends
      # that stream's data right behind the OKAY that opens it
      def on_open(local, remote):
        for item in scripts[-1]:
          if item == 'CLSE':
            dev.enqueue('CLSE', remote, local)
          else:
            dev.enqueue('WRTE', remote, local, item)
      dev.on_open = on_open
    for s, item in merge:
      if late and s == len(scripts) - 1:
        continue
      local, remote = ids[s]
      if item == 'CLSE':
        dev.enqueue('CLSE', remote, local)
      else:
        dev.enqueue('WRTE', remote, local, item)
    res = {'read': {}, 'end': {}, 'write': None, 'ids': ids}

    writer_done = threading.Event()

    def reader(s):
      got = []
      end = None
      if isinstance(writer, dict) and writer.get('reader_waits'):
        writer_done.wait()       # the stream's reader turns up only after the write() call has come back
      for _ in range(12):
        try:
          d = streams[s].read(timeout_ms=60)
          if not d:
            end = 'eof'
            break
          got.append(d)
        except ue.AdbStreamClosedError:
          end = 'closed'
          break
        except (ue.AdbTimeoutError, ue.UsbReadFailedError) as e:
          end = 'timeout'
          break
        except Exception as e:  # pylint: disable=broad-except
          end = 'error:%s:%s' % (type(e).__name__, str(e)[:80])
          break
      res['read'][s] = ''.join(got)
      res['end'][s] = end

    wopts = writer if isinstance(writer, dict) else {}
    wdata = wopts.get('data') if wopts else writer
    writers = [wdata] if isinstance(wdata, str) else list(wdata or [])
    wres = {}
    wtime = {}
    dev.ack_delay = wopts.get('ack_delay', 0.0)
    wtimeout = wopts.get('timeout_ms', 300)

    def do_write(k=0):
      t0 = time.monotonic()
      try:
        streams[0].write(writers[k], timeout_ms=wtimeout)
        wres[k] = 'ok'
      except Exception as e:  # pylint: disable=broad-except
        wres[k] = 'error:%s:%s' % (type(e).__name__, str(e)[:80])
      wtime[k] = time.monotonic() - t0
      writer_done.set()

    def open_then_read(s):
      try:
        st = conn.open_stream('svc%d' % s, timeout_ms=100)
      except Exception as e:  # pylint: disable=broad-except
        st = None
        res['end'][s] = 'error:open:%s:%s' % (type(e).__name__, str(e)[:60])
      if st is None:
        res['read'][s] = ''
        res['end'].setdefault(s, 'open-failed')
        ids.append((0, 0))
        return
      streams.append(st)
      ids.append((st._transport.local_id, st._transport.remote_id))  # pylint: disable=protected-access
      reader(s)

    ths = [threading.Thread(target=reader, args=(s,), name='r%d' % s) for s in range(len(streams))]
    if late:
      ths.append(threading.Thread(target=open_then_read, args=(len(scripts) - 1,), name='opener'))
    for k in range(len(writers)):
      ths.append(threading.Thread(target=do_write, args=(k,), name='w%d' % k if k else 'w'))
    for t in ths:
      t.start()
    for t in ths:
      t.join()
    if writers:
      # a write() that finds another WRTE of its stream in flight is refused by design (AdbProtocolError, the check is
      # made before queueing for the write lock): not a failure of the property, the data is simply not sent
      refused = [k for k, r in wres.items() if len(writers) > 1 and r.startswith('error:AdbProtocolError:Previous WRTE failed')]
      bad = [r for k, r in wres.items() if r != 'ok' and k not in refused]
      res['write'] = 'ok' if not bad and len(wres) == len(writers) else (bad[0] if bad else 'missing')
      res['written'] = [writers[k] for k in sorted(wres) if wres[k] == 'ok']
      res['write_elapsed'] = max(wtime.values()) if wtime else 0.0
      res['write_timeout'] = wtimeout / 1000.0
    res['rx'] = list(dev.rx)
    res['dev_violations'] = list(dev.violations)
    res['left'] = len(dev.out)
    res['consumed_wrte'] = dict(dev.consumed_wrte)
    return res

  return fn


def focus():
  am, ap, ue, libusb1 = mods()
  T, C = ap.AdbStreamTransport, ap.AdbConnection
  return [T._read_messages_until_true, T._handle_message, T.enqueue_message, T.write, T.read, T._send_command,  # pylint: disable=protected-access
          C.read_for_stream, C._handle_message_for_stream, C.close_stream_transport]  # pylint: disable=protected-access


def execute(cfg, choices):
  scripts, merge, writer = cfg
  sched, value = explore.run_under_scheduler(
      scenario(scripts, merge, writer), choices, focus_targets=focus(),
      focus_files=('openhtf/plugs/usb/adb_protocol.py',), max_steps=60000)
  result = {'value': value if isinstance(value, dict) else repr(value), 'failure': repr(sched.failure) if sched.failure else None}
  result['timer_deviations'] = sum(1 for p in sched.points if p['kinds'][p['choice']] == 'timer' and 'run' in p['kinds'])
  result['early_jump'] = round(getattr(sched, 'early_jump', 0.0), 6)
  if isinstance(value, dict) and 'read' in value:
    result['outcome_key'] = (tuple(sorted(value['read'].items())), tuple(sorted(value['end'].items())), value['write'])
  else:
    result['outcome_key'] = ('failure', repr(sched.failure or value)[:120])
  return explore.Exec(list(choices), sched.points, result, sched.failure, sched.steps, len(sched.trace), sched.state_hashes)


def check(cfg):
  scripts, merge, writer = cfg
  wopts = writer if isinstance(writer, dict) else {}
  wspec = writer
  if wopts:
    writer = wopts.get('data')

  def chk(ex):
    rep = {'part': 'streams', 'cfg': [scripts, merge, wspec], 'choices': ex.choices}
    tag = '%dstreams%s' % (len(scripts), ('+%dwriters' % len(writer) if isinstance(writer, (list, tuple)) else '+writer') if writer else '')
    out = []
    v = ex.result['value']
    if ex.failure is not None:
      out.append(('%s:%s' % (type(ex.failure).__name__, tag), 'host threads did not finish: %s' % (ex.failure,), rep))
      return out
    if not isinstance(v, dict) or 'read' not in v:
      out.append(('harness-exception:%s' % tag, 'scenario raised %r' % (v,), rep))
      return out
    # Explored clock jumps (a timer firing while threads could still run = the threads were slow) may make a read or
    # write time out legitimately -- but only if the clock ran ahead by a sizeable part of the smallest timeout (60 ms);
    # waking a 5 ms device poll early cannot.
    strict = ex.result.get('early_jump', 0.0) < 0.03
    for s, sc in enumerate(scripts):
      want = ''.join(x for x in sc if x != 'CLSE')
      got = v['read'].get(s)
      end = v['end'].get(s)
      complete = got == want
      if got is None or not want.startswith(got):
        kind = 'order' if got is not None and sorted(got) == sorted(want) else 'content'
        out.append(('bytes-%s:%s' % (kind, tag), 'stream %d reader obtained %r, device wrote %r (merge %r, end %s)'
                    % (s, got, want, merge, end), rep))
      elif not complete and (strict or end != 'timeout'):
        out.append(('bytes-lost:%s' % tag, 'stream %d reader obtained only %r of %r and ended with %s (clock deviations: %d)'
                    % (s, got, want, end, ex.result.get('timer_deviations', 0)), rep))
      local, remote = v['ids'][s]
      n_wrte = v.get('consumed_wrte', {}).get(local, 0)
      n_ack = sum(1 for m in v['rx'] if m[0] == 'OKAY' and m[1] == local and m[2] == remote)
      if n_ack != n_wrte:
        out.append(('acks:%s' % tag, 'stream %d: host consumed %d device WRTEs but sent %d OKAY(%d,%d); host sent %r'
                    % (s, n_wrte, n_ack, local, remote, [m[:3] for m in v['rx']]), rep))
      if strict and n_wrte != sum(1 for x in sc if x != 'CLSE'):
        out.append(('unread:%s' % tag, 'stream %d: device WRTEs left unconsumed although no timer fired early' % s, rep))
      if str(end or '').startswith('error'):
        out.append(('reader-error:%s' % tag, 'stream %d reader ended with %s' % (s, end), rep))
    bad_ok = [m for m in v['rx'] if m[0] == 'OKAY' and (m[1], m[2]) not in [tuple(i) for i in v['ids']]]
    if bad_ok:
      out.append(('ack-ids:%s' % tag, 'host OKAY with foreign ids %r' % (bad_ok,), rep))
    for kind, what in v['dev_violations']:
      out.append(('%s:%s' % (kind, tag), what, rep))
    if writer and wopts.get('ack_delay'):
      # a slow device: "every blocked write returns or raises by its timeout" -- the whole write(), not each chunk
      late = v.get('write_elapsed', 0.0) - v.get('write_timeout', 0.3)
      if late > 0.06 + ex.result.get('early_jump', 0.0):
        out.append(('write-overran-timeout:%s' % tag, 'write(%r, timeout %.0f ms) against a device taking %.0f ms per ack ended %r '
                    'after %.0f ms' % (writer, 1000 * v['write_timeout'], 1000 * wopts['ack_delay'], v['write'], 1000 * v['write_elapsed']), rep))
    elif writer:
      timed_out = isinstance(v['write'], str) and 'Timeout' in v['write']
      # (when the device closes the stream before acknowledging, the write is entitled to fail with "stream closed")
      # or, once nobody reads the connection for it any more, by its timeout
      closed_ok = wopts.get('may_be_closed') and isinstance(v['write'], str) and v['write'].startswith(
          ('error:AdbStreamClosedError', 'error:AdbTimeoutError'))
      if v['write'] != 'ok' and not closed_ok and (strict or not timed_out):
        out.append(('write-failed:%s' % tag, 'stream write ended with %r (clock deviations: %d)'
                    % (v['write'], ex.result.get('timer_deviations', 0)), rep))
      sent = ''.join(m[3] for m in v['rx'] if m[0] == 'WRTE')
      if isinstance(writer, str):
        if (v['write'] == 'ok' and sent != writer) or not writer.startswith(sent):
          out.append(('write-content:%s' % tag, 'device received %r, host wrote %r' % (sent, writer), rep))
      elif v['write'] == 'ok' and sent not in [''.join(p) for p in itertools.permutations(v.get('written', []))]:
        # several writers on one stream: each write() is one unit (<= maxdata), the device sees them in some order
        out.append(('write-content:%s' % tag, 'device received %r, host threads wrote %r' % (sent, list(writer)), rep))
    return out
  return chk


def configs(tier):
  """(scripts, merge, writer, bound)."""
  out = []
  two = [['1', '2', 'CLSE'], ['a', 'CLSE']]
  ms = merges(two)
  pick = ms
  for m in pick:
    out.append((two, m, None, 1 if tier == 'quick' else 2))
  one = [['a', 'b', 'c', 'CLSE']]
  out.append((one, merges(one)[0], None, 1 if tier == 'quick' else 2))
  one_b = [['a', 'b', 'c']]
  out.append((one_b, merges(one_b)[0], '012345', 1 if tier == 'quick' else 2))
  # two threads writing to the same stream (at most one unacknowledged WRTE at any time), without and with a reader
  none_s = [[]]
  out.append((none_s, [], ['01', '23'], 1 if tier == 'quick' else 2))
  # second stream opened while the first stream's reader is running; its data follows its OKAY at once
  lo = [['1', '2'], ['a', 'b', 'CLSE']]
  out.append((lo, merges([lo[0], []])[0], {'late_open': True}, 1 if tier == 'quick' else 2))
  # the device answers a host write with data and then closes the stream: whichever thread handles the CLSE (the writer
  # waiting for its OKAY, or the reader), the reader still obtains everything written before it
  wc = [['a', 'b', 'CLSE']]
  out.append((wc, merges(wc)[0], {'data': '01', 'may_be_closed': True}, 1 if tier == 'quick' else 2))
  out.append((wc, merges(wc)[0], {'data': '01', 'may_be_closed': True, 'reader_waits': True}, 1 if tier == 'quick' else 2))
  # a device that needs 200 ms per acknowledgement, three chunks, 300 ms for the whole write
  out.append((none_s, [], {'data': '0123456789ab', 'ack_delay': 0.2, 'timeout_ms': 300}, 0 if tier == 'quick' else 1))
  if tier == 'thorough':
    out.append(([['a']], merges([['a']])[0], ['01', '23'], 1))
    out.append((one_b, merges(one_b)[0], '0123456789', 1))
  if tier == 'thorough':
    three = [['1', '2', 'CLSE'], ['a', 'CLSE'], ['x', 'CLSE']]
    m3 = merges(three)
    for m in m3[::max(1, len(m3) // 12)]:
      out.append((three, m, None, 1))
    out.append((two, ms[2], {'data': 'wxyz1', 'may_be_closed': True}, 1))     # (stream 0's script closes it: the write may find it closed)
  return out


# ---- sequential histories: open X, host closes X, open Y, with a device WRTE for X still in flight ------------------------
def reopen_case(when, n_before):
  """when: the stale WRTE(X) is on the wire 'before' the OKAY that opens Y, or 'after' it; n_before: streams opened (and
  kept) before X.  Returns the observation dict."""
  am, ap, ue, libusb1 = mods()

  def fn(sched):
    dev = Device(ue, libusb1)
    conn = ap.AdbConnection(am.AdbTransportAdapter(dev), MAXDATA, 'device:ser:banner')
    keep = [conn.open_stream('keep%d' % i, timeout_ms=100) for i in range(n_before)]
    x = conn.open_stream('svcX', timeout_ms=100)
    xl, xr = x._transport.local_id, x._transport.remote_id  # pylint: disable=protected-access
    x.close(timeout_ms=50)
    if when == 'before':
      dev.enqueue('WRTE', xr, xl, 'STALE-X')
    else:
      dev.on_open = lambda local, remote: dev.enqueue('WRTE', xr, xl, 'STALE-X')
    res = {'x': (xl, xr)}
    try:
      y = conn.open_stream('svcY', timeout_ms=100)
    except Exception as e:  # pylint: disable=broad-except
      res['open'] = 'error:%s:%s' % (type(e).__name__, str(e)[:80])
      return res
    dev.on_open = None
    if y is None:
      res['open'] = 'refused'
      return res
    yl, yr = y._transport.local_id, y._transport.remote_id  # pylint: disable=protected-access
    res['open'] = 'ok'
    res['y'] = (yl, yr)
    dev.enqueue('WRTE', yr, yl, 'fresh')
    try:
      res['read'] = y.read(timeout_ms=100)
    except Exception as e:  # pylint: disable=broad-except
      res['read'] = 'error:%s:%s' % (type(e).__name__, str(e)[:80])
    res['rx'] = list(dev.rx)
    res['keep_open'] = [not k.is_closed() for k in keep]
    return res

  sched, value = explore.run_under_scheduler(fn, [], focus_targets=focus(), focus_files=('openhtf/plugs/usb/adb_protocol.py',),
                                             max_steps=60000)
  return value if isinstance(value, dict) else {'open': 'harness:%r / %r' % (value, sched.failure)}


def run_reopen(rep):
  n = 0
  shapes = set()
  for when in ('before', 'after'):
    for n_before in (0, 1, 2):
      v = reopen_case(when, n_before)
      n += 1
      shapes.add((when, n_before, v.get('open'), v.get('read')))
      rp = {'reopen': [when, n_before]}
      tag = 'reopen:%s:%d' % (when, n_before)
      if v.get('open') != 'ok':
        rep.merge_violations([(tag + ':open', 'open X, close X, open Y with a WRTE for X %s Y\'s OKAY: opening Y gave %r'
                               % (when, v.get('open')), rp)])
        continue
      if v.get('read') != 'fresh':
        rep.merge_violations([(tag + ':bytes', 'stream Y (ids %r) opened after X (ids %r) was closed: its reader obtained %r, the '
                               'device wrote %r to Y (and \'STALE-X\' to the closed X)' % (v['y'], v['x'], v.get('read'), 'fresh'), rp)])
      bad_ok = [m for m in v.get('rx', []) if m[0] == 'OKAY' and (m[1], m[2]) == tuple(v['x']) and v['x'] != v['y']]
      if bad_ok:
        rep.merge_violations([(tag + ':ack', 'the host acknowledged a WRTE for the closed stream X: %r' % (bad_ok,), rp)])
  rep.add_part('sequential open / close / open with a late WRTE', states=n, transitions=n, traces_validated_against_impl=n,
               deviation_bound=0, distinct_outcomes=len(shapes), exhaustive=True, samples=[{'cases': sorted(map(repr, shapes))[:3]}])


def run(tier):
  rep = common.Report(PID, tier, 'model_checking')
  run_reopen(rep)
  explore.set_plan(common.thorough_budget(tier, 900.0), len(configs(tier)))
  for scripts, merge, writer, bound in configs(tier):
    cfg = (scripts, merge, writer)
    r = explore.explore('C14:%r' % (cfg,), lambda ch, cfg=cfg: execute(cfg, ch), check(cfg), bound,
                        cap=15000 if tier == 'quick' else 150000)
    rep.merge_violations(r['violations'])
    rep.add_part('%d streams merge=%s writer=%r' % (len(scripts), ''.join('%d%s' % (s, 'C' if i == 'CLSE' else i) for s, i in merge), writer),
                 states=max(1, r['states']), transitions=r['steps'], traces_validated_against_impl=r['executions'],
                 deviation_bound=bound, distinct_outcomes=len(r['outcomes']), exhaustive=not r['capped'],
                 decision_points_default=r['default_points'], samples=r['samples'] or [{'choices': []}])
  rep.assumptions = [
      'device = scripted reactive fake transport (OPEN->OKAY, host WRTE->OKAY); it queues its scripted WRTE/CLSE messages in the chosen '
      'merge order without waiting for the host acks; maxdata = %d' % MAXDATA,
      'host threads: one reader per stream looping read(timeout 60 virtual ms) until closed / timeout, optional writer on stream 0',
      'scheduling points: every source line of the multiplexer functions listed in focus(), every lock/condition operation created in '
      'adb_protocol.py, the fake transport\'s read/write; virtual time; "then randomly" of the quantifier is outside this technique',
  ]
  return rep.finish(rule='outer: device scripts x order-preserving merges; inner: stateless schedule exploration within the deviation bound')


def replay(art):
  r = art['replay']
  if 'reopen' in r:
    v = reopen_case(*r['reopen'])
    print(v)
    bad = v.get('open') != 'ok' or v.get('read') != 'fresh'
    if bad:
      print('VIOLATED reopen', r['reopen'])
    return 1 if bad else 0
  scripts, merge, writer = r['cfg']
  cfg = (scripts, [tuple(x) for x in merge], writer)
  ex = execute(cfg, r['choices'])
  print(ex.result['value'])
  bad = check(cfg)(ex)
  for b in bad:
    print('VIOLATED', b[0], b[1])
  return 1 if bad else 0
