"""C08 plug lifecycle: assignments of plugs to phases/test_start x injected faults.

Instrumented plug classes write an event log (construction, tearDown, the
instances each phase body received, test diagnoser, output callback).  Every
assignment of <=3 plug classes to 2 (3 in thorough) phases and test_start is
combined with every fault of the menu (k-th constructor raises, tearDown raises
or hangs past plug_teardown_timeout_s, test_start terminal, phase raises / times
out / STOPs at node j, operator abort at node j).  Engine E with fault
enumeration; the abort is issued by a helper thread started by the body.
"""
import itertools
import json
import threading
import time

from vf import common, htf, progs

PID = 'C08'
LOG = []
FAULTS = {}


class CtorBoom(Exception):
  pass


class TdBoom(Exception):
  pass


_cls = {}


def classes():
  if _cls:
    return _cls
  L = progs.lib()
  from openhtf.core import base_plugs  # pylint: disable=g-import-not-at-top

  def mk(name):
    class _P(base_plugs.BasePlug):

      def __init__(self):
        if FAULTS.get('ctor') == name:
          LOG.append(('init-raise', name))
          raise CtorBoom('constructor of %s failed' % name)
        LOG.append(('init', name, id(self)))

      def tearDown(self):
        if FAULTS.get('td_block') not in (None, name):
          RELEASE[0].set()
        LOG.append(('teardown', name, id(self)))
        if FAULTS.get('td_raise') == name:
          raise TdBoom('tearDown of %s failed' % name)
        if FAULTS.get('td_exit') == name:
          LOG.append(('teardown-end', name, id(self)))
          raise SystemExit(4)       # (a driver's clean-up calling sys.exit(): not an Exception subclass)
        if FAULTS.get('td_hang') == name:
          t0 = time.time()
          while time.time() - t0 < 4.0:       # (abandoned after plug_teardown_timeout_s = 0.03 s when all is well)
            time.sleep(0.001)
          LOG.append(('hang-not-abandoned', name))
        if FAULTS.get('td_slow'):
          time.sleep(0.15)         # a wind-down that takes longer than cancel_timeout_s
        if FAULTS.get('td_slow_others') and FAULTS.get('td_hang') != name:
          time.sleep(0.1)          # takes a while, but well within its own plug_teardown_timeout_s (0.5 s)
        if FAULTS.get('td_block') == name:
          # blocks where the asynchronous termination request cannot reach it (a C-level wait), until the framework
          # moves on to the next tearDown / the output callback -- or gives up waiting for that after 3 s
          try:
            RELEASE[0].wait(3.0)
          finally:   # (the pending termination request fires as soon as the wait returns)
            LOG.append(('block-end', name, RELEASE[0].is_set()))
            DONE[0].set()
        LOG.append(('teardown-end', name, id(self)))

    # class D is a second, distinct class with the same module and class name as A (e.g. made by a plug factory)
    _P.__name__ = 'Plug' + ('A' if name == 'D' else name)
    _P.__qualname__ = _P.__name__
    return _P

  for n in 'ABCD':
    _cls[n] = mk(n)

  class _E(base_plugs.BasePlug):
    """Does not override tearDown in the class body: it binds its driver's close() on the instance."""

    def __init__(self):
      LOG.append(('init', 'E', id(self)))
      self.tearDown = self._close

    def _close(self):
      LOG.append(('teardown', 'E', id(self)))
      LOG.append(('teardown-end', 'E', id(self)))

  _E.__name__ = _E.__qualname__ = 'PlugE'
  _cls['E'] = _E
  return _cls


RELEASE = [threading.Event()]
DONE = [threading.Event()]


# plug requests of a phase: list of (argname, class letter, update_kwargs)
REQUESTS = [
    [], [('a', 'A', True)], [('b', 'B', True)], [('a', 'A', True), ('b', 'B', True)],
    [('a1', 'A', True), ('a2', 'A', True)], [('c', 'C', False)], [('a', 'A', True), ('c', 'C', True)],
    [('a', 'A', True), ('d', 'D', True)],
    [('a', 'A', True, 'shadowed')],      # the phase also carries with_args(a=...): the plug must win
    [('e', 'E', True)],
]
TEST_STARTS = [None, 'lambda', [], [('a', 'A', True)], [('c', 'C', True)], [('a1', 'A', True), ('a2', 'A', True)]]


def make_phase(name, req, behaviour, test_holder):
  L = progs.lib()
  h = L['htf']
  C = classes()

  def body(test, **kw):
    LOG.append(('phase', name, tuple(sorted((k, id(v)) for k, v in kw.items()))))
    if behaviour == 'raise':
      raise progs.PhaseBoom('boom')
    if behaviour == 'stop':
      return h.PhaseResult.STOP
    if behaviour == 'hang':
      progs.CLOCK.hanging.add(threading.current_thread())
      while True:
        time.sleep(0.0005)
    if behaviour == 'sigint':
      import os, signal  # pylint: disable=g-import-not-at-top,multiple-imports
      # (Ctrl-C while THIS test is running and registered for it; the registry is process-wide and weakly referenced, so
      # "non-empty" alone could still be an earlier run's entry)
      while not any(t is test_holder['test'] for t in list(h.Test.TEST_INSTANCES.values())):
        time.sleep(0.001)
      # (to the main thread, as a terminal's Ctrl-C is served: a process-directed signal that the kernel happens to hand to
      # another thread is only noticed when the main thread next runs bytecode -- here: when the phase has timed out)
      signal.pthread_kill(threading.main_thread().ident, signal.SIGINT)
      while True:
        time.sleep(0.0005)
    if behaviour == 'abort2':
      def twice():
        test_holder['test'].abort_from_sig_int()
        test_holder['test'].abort_from_sig_int()      # the operator insists: a forced abort
      t = threading.Thread(target=twice, name='aborter')
      t.daemon = True
      t.start()
      while True:
        time.sleep(0.0005)
    if behaviour == 'abort':
      t = threading.Thread(target=test_holder['test'].abort_from_sig_int, name='aborter')
      t.daemon = True
      t.start()
      while True:
        time.sleep(0.0005)
    return None

  body.__name__ = name
  ph = h.PhaseOptions(name=name)(body)
  groups = {}
  shadow = {}
  for item in req:
    arg, letter, upd = item[:3]
    groups.setdefault(upd, {})[arg] = C[letter]
    if len(item) > 3:
      shadow[arg] = item[3]
  for upd, m in groups.items():
    ph = L['plugs'].plug(update_kwargs=upd, **m)(ph)
  if shadow:
    ph = ph.with_args(**shadow)
  return ph


def run_case(case):
  """case: dict(phases=[req idx...], test_start=idx, fault=(kind, arg))."""
  L = progs.lib()
  h, conf, dl, R = L['htf'], L['conf'], L['dl'], L['R']
  del LOG[:]
  FAULTS.clear()
  kind, arg = case['fault']
  if kind in ('ctor', 'td_raise', 'td_hang', 'td_block', 'td_exit'):
    FAULTS[kind] = arg
  if kind == 'td_hang+slow':      # the tearDown of arg hangs; the tearDowns of the other plugs each take 0.1 s
    FAULTS['td_hang'], FAULTS['td_slow_others'] = arg, True
  if kind == 'td_hang+ctor':      # two faults in one run: the tearDown of arg[0] hangs, the constructor of arg[1] fails
    FAULTS['td_hang'], FAULTS['ctor'] = arg[0], arg[1]
  RELEASE[0] = threading.Event()
  DONE[0] = threading.Event()
  holder = {}
  phases = []
  for i, ridx in enumerate(case['phases']):
    beh = None
    if kind in ('phase_raise', 'phase_stop', 'phase_hang', 'phase_abort', 'phase_abort2', 'phase_sigint') and arg == i:
      beh = kind.split('_')[1]
    phases.append(make_phase('ph%d' % i, REQUESTS[ridx], beh, holder))
  ts = TEST_STARTS[case['test_start']]
  test_start = None
  if ts == 'lambda' and kind in ('ts_raise', 'ts_stop', 'ts_abort'):
    return None
  if ts == 'lambda':
    LOGL = LOG
    test_start = lambda: (LOGL.append(('phase', 'test_start', ())), 'dut1')[1]  # noqa: E731
  elif ts is not None:
    tbeh = {'ts_raise': 'raise', 'ts_stop': 'stop', 'ts_abort': 'abort'}.get(kind)
    test_start = make_phase('test_start', ts, tbeh, holder)
  elif kind in ('ts_raise', 'ts_stop', 'ts_abort'):
    return None  # fault not applicable without a test_start phase

  def tdiag_fn(rec, store):
    LOG.append(('tdiag',))
    return None

  tdiag = dl.TestDiagnoser(R, name='td')(tdiag_fn)

  def cb(rec):
    RELEASE[0].set()
    LOG.append(('callback', rec.outcome.name if rec.outcome else None))

  test = h.Test(*phases)
  holder['test'] = test
  test.add_output_callbacks(cb)
  test.add_test_diagnosers(tdiag)
  saved_default_timeout = L['pe'].DEFAULT_PHASE_TIMEOUT_S
  if kind == 'phase_sigint':
    FAULTS['td_slow'] = True
    conf.load(cancel_timeout_s=0.02)
    L['pe'].DEFAULT_PHASE_TIMEOUT_S = 5.0      # (bounds what a late-served signal costs: DESIGN.md 7.3)
  if kind == 'td_hang+slow':
    conf.load(plug_teardown_timeout_s=0.5)
  if kind in ('td_hang', 'td_block', 'td_hang+ctor'):
    conf.load(plug_teardown_timeout_s=0.03)
  try:
    try:
      res = test.execute(test_start=test_start)
    except BaseException as e:  # pylint: disable=broad-except
      res = 'EXC:%s' % type(e).__name__
  finally:
    RELEASE[0].set()
    if kind == 'td_block' and any(e[0] == 'teardown' and e[1] == arg for e in list(LOG)):
      DONE[0].wait(5.0)
    if kind in ('td_hang', 'td_block', 'phase_sigint', 'td_hang+ctor', 'td_hang+slow'):
      conf.reset()
    L['pe'].DEFAULT_PHASE_TIMEOUT_S = saved_default_timeout
  h.Test.HANDLED_SIGINT_ONCE = False
  return {'res': res, 'log': list(LOG)}


def expected_outcome(case):
  kind, arg = case['fault']
  ts = TEST_STARTS[case['test_start']]
  needed_ts = {it[1] for it in ts} if isinstance(ts, list) else set()
  needed_all = {it[1] for r in case['phases'] for it in REQUESTS[r]}
  if kind == 'td_hang+ctor':
    kind, arg = 'ctor', arg[1]
  if kind == 'ctor':
    if arg in needed_ts or arg in needed_all:
      return 'ERROR'
    return 'PASS'
  if kind in ('ts_raise',):
    return 'ERROR'
  if kind == 'ts_stop':
    return 'FAIL'
  if kind in ('ts_abort', 'phase_abort', 'phase_abort2', 'phase_sigint'):
    return 'ABORTED'
  if kind == 'phase_raise':
    return 'ERROR'
  if kind == 'phase_stop':
    return 'FAIL'
  if kind == 'phase_hang':
    return 'TIMEOUT'
  return 'PASS'


def check(case, out):
  bad = []
  log = out['log']
  kind, arg = case['fault']
  inits = {}
  for e in log:
    if e[0] == 'init':
      if e[1] in inits:
        bad.append(('double-construction', 'plug class %s constructed twice' % e[1]))
      inits[e[1]] = e[2]
  tds = {}
  for e in log:
    if e[0] == 'teardown':
      tds[e[1]] = tds.get(e[1], 0) + 1
      if inits.get(e[1]) != e[2]:
        bad.append(('teardown-unknown-instance', 'tearDown on an instance of %s that was not the constructed one' % e[1]))
  for cls in inits:
    if tds.get(cls, 0) != 1:
      bad.append(('teardown-count', 'instance of %s constructed but tearDown called %d times (fault %s)' % (cls, tds.get(cls, 0), case['fault'])))
  # phases receive the run's instance under the requested names
  reqs = {'ph%d' % i: REQUESTS[r] for i, r in enumerate(case['phases'])}
  ts = TEST_STARTS[case['test_start']]
  if isinstance(ts, list):
    reqs['test_start'] = ts
  for e in log:
    if e[0] == 'phase' and e[1] in reqs:
      want = tuple(sorted((it[0], inits.get(it[1])) for it in reqs[e[1]] if it[2]))
      if e[2] != want:
        bad.append(('injection', 'phase %s received %r, expected %r' % (e[1], e[2], want)))
  # ordering: tearDowns after last phase / test diagnoser, before callbacks
  idx = {k: [i for i, e in enumerate(log) if e[0] == k] for k in ('phase', 'tdiag', 'teardown', 'callback', 'init')}
  if idx['teardown']:
    last_work = max(idx['phase'] + idx['tdiag'] + [-1])
    if min(idx['teardown']) < last_work:
      bad.append(('teardown-too-early', 'a plug tearDown ran before the last phase/test diagnoser finished: %r' % (log,)))
    ends = [i for i, e in enumerate(log) if e[0] == 'teardown-end']
    if idx['callback'] and max(idx['teardown'] + ends) > min(idx['callback']):
      bad.append(('teardown-after-callback', 'a plug tearDown ran (or was still running) after an output callback: %r' % (log,)))
  if kind == 'td_hang+slow':
    # the time limit is per plug: a tearDown that needs 0.1 s is never cut short because another plug used up its own limit
    for e in log:
      if e[0] == 'teardown' and e[1] != arg and not any(x[0] == 'teardown-end' and x[1] == e[1] and x[2] == e[2] for x in log):
        bad.append(('teardown-cut-short', 'tearDown of %s (0.1 s of work, limit 0.5 s per plug) did not finish: it was abandoned '
                    'together with the hanging tearDown of %s' % (e[1], arg)))
  for e in log:
    if e[0] == 'hang-not-abandoned':
      bad.append(('teardown-hang-not-abandoned', 'the hanging tearDown of %s ran for 4 s without being abandoned' % e[1]))
  for e in log:
    if e[0] == 'block-end' and not e[2]:
      bad.append(('teardown-blocked-others', 'while the tearDown of %s was stuck (past plug_teardown_timeout_s) nothing else '
                  'happened: neither another tearDown nor the output callback ran for 3 s' % e[1]))
  if kind == 'td_block' and arg in inits and not any(e[0] == 'block-end' for e in log):
    bad.append(('teardown-blocked-others', 'the stuck tearDown of %s was never released' % arg))
  if len(idx['callback']) != 1:
    bad.append(('callbacks', 'output callback called %d times' % len(idx['callback'])))
  # only test_start's plugs exist while test_start runs
  for i, e in enumerate(log):
    if e[0] == 'phase' and e[1] == 'test_start':
      alive = {x[1] for x in log[:i] if x[0] == 'init'}
      need = {it[1] for it in ts} if isinstance(ts, list) else set()
      if alive != need:
        bad.append(('test_start-plugs', 'plugs %r exist while test_start runs, it needs %r' % (sorted(alive), sorted(need))))
  # constructor failure: ERROR and no later phase
  raised = [i for i, e in enumerate(log) if e[0] == 'init-raise']
  if raised:
    later = [e for e in log[raised[0]:] if e[0] == 'phase']
    if later:
      bad.append(('phase-after-ctor-failure', 'phase bodies %r ran after a plug constructor failed' % (later,)))
  outcome = [e[1] for e in log if e[0] == 'callback']
  exp = expected_outcome(case)
  # (a real Ctrl-C sent from inside a phase is, once in a few thousand runs under load, not served until the phase has timed
  # out -- see DESIGN.md 7.3; the run's outcome under abort is C04's subject, C08 judges the plugs)
  if outcome and outcome[0] != exp and not (exp == 'ABORTED' and outcome[0] == 'TIMEOUT'):
    bad.append(('outcome', 'outcome %s, expected %s for fault %r' % (outcome[0], exp, case['fault'])))
  return bad


def cases(tier):
  nph = 2 if tier == 'quick' else 3
  faults = [('none', None)]
  faults += [('ctor', l) for l in 'ABC'] + [('td_raise', l) for l in 'ABC'] + [('td_hang', l) for l in 'AB'] + [('td_block', 'A')]
  faults += [('td_hang+ctor', 'AB'), ('td_hang+ctor', 'AC'), ('td_hang+ctor', 'BA'), ('td_hang+ctor', 'CA')]
  faults += [('ts_raise', None), ('ts_stop', None), ('ts_abort', None)]
  slow = [('td_hang+slow', 'A'), ('td_hang+slow', 'B')]
  for j in range(nph):
    faults += [('phase_raise', j), ('phase_stop', j), ('phase_hang', j), ('phase_abort', j)]
  faults += [('phase_sigint', 0), ('phase_abort2', 0), ('phase_abort2', nph - 1), ('td_exit', 'A'), ('td_exit', 'B')]
  reqs = range(len(REQUESTS))
  for ph in itertools.product(reqs, repeat=nph):
    if tier == 'thorough' and sum(1 for r in ph if r == 0) > 1:
      continue
    for tsi in range(len(TEST_STARTS)):
      for f in faults:
        yield {'phases': list(ph), 'test_start': tsi, 'fault': list(f)}
      if tsi in (0, 3) and len({it[1] for r in ph for it in REQUESTS[r]} | ({'A'} if tsi == 3 else set())) >= 2:
        for f in slow:       # (costs real time: only where at least two plug classes exist)
          yield {'phases': list(ph), 'test_start': tsi, 'fault': list(f)}


def _work(item):
  tier, start, step = item
  n, viols, outcomes, sample = 0, [], set(), None
  for i, case in enumerate(cases(tier)):
    if i % step != start:
      continue
    out = run_case(case)
    if out is None:
      continue
    n += 1
    bad = check(case, out)
    outcomes.add(tuple(e[0] if e[0] != 'callback' else e for e in out['log']))
    if sample is None and case['fault'][0] == 'td_raise':
      sample = {'case': case, 'log': [e[:2] for e in out['log']]}
    for kind, what in bad:
      viols.append(('%s:fault=%s:ts=%s' % (kind, case['fault'][0], case['test_start']),
                    'case %s: %s' % (json.dumps(case), what), {'case': case}))
  return n, viols, len(outcomes), sample


def run(tier):
  rep = common.Report(PID, tier, 'fault_enumeration')
  progs.lib()
  step = common.NCPU * 4
  res = common.pmap(_work, common.rotate([(tier, s, step) for s in range(step)]), chunksize=1)
  n = sum(r[0] for r in res)
  samples = []
  for r in res:
    rep.merge_violations(r[1])
    if r[3] and len(samples) < 2:
      samples.append(r[3])
  rep.add_part('plugs-x-faults', evaluations=n, distinct_nontrivial=sum(r[2] for r in res), exhaustive=True, samples=samples)
  for kind, what in run_forced_abort():
    rep.merge_violations([(kind, 'abort in main, second abort in the teardown phase: %s' % what, {'forced_abort': True})])
  rep.add_part('forced abort during a teardown phase', evaluations=1, distinct_nontrivial=1, exhaustive=True,
               samples=[{'shape': 'group(main=[m(A)], teardown=[t(B)]); abort while m runs, again while t runs'}])
  shapes = set()
  for v in OVERLAP_VARIANTS:
    out = run_overlap(v)
    shapes.add(tuple(e[:2] for e in out['log']))
    for kind, what in check_overlap(v, out):
      rep.merge_violations([('%s:%s' % (kind, v[2]), 'overlapping runs %r: %s' % (v, what), {'overlap': v})])
  rep.add_part('two overlapping runs sharing plug classes', evaluations=len(OVERLAP_VARIANTS), distinct_nontrivial=len(shapes),
               exhaustive=True, samples=[{'variants': len(OVERLAP_VARIANTS), 'shape': 'one run suspended inside its first phase while the other executes completely'}])
  rep.assumptions = [
      '3 instrumented plug classes, 7 request shapes per phase (incl. one class under two names, update_kwargs=False), '
      '5 test_start forms, one injected fault per run from the menu in cases()',
      'tearDown hang uses plug_teardown_timeout_s=0.03 real seconds; phase timeouts use the virtual deadline clock; '
      'the abort is a real helper thread calling Test.abort_from_sig_int() from inside the phase body',
  ]
  return rep.finish(rule='all assignments x all single faults; distinct_nontrivial = distinct event-log shapes')


# ---- two runs that overlap in time and use the same plug class --------------------------------------------------------
def run_overlap(variant):
  """variant: (requests of run X's two phases, requests of run Y's two phases, which run is suspended: 'X'|'Y').

  The suspended run stops inside its first phase until the other run has executed completely (event-driven)."""
  L = progs.lib()
  h = L['htf']
  C = classes()
  del LOG[:]
  FAULTS.clear()
  reqx, reqy, held = variant
  in_p1, go = threading.Event(), threading.Event()

  def mk_test(tag, reqs, suspended):
    def mk(i, req):
      def body(test, **kw):
        LOG.append(('phase', '%s.ph%d' % (tag, i), tuple(sorted((k, id(v)) for k, v in kw.items()))))
        if suspended and i == 0:
          in_p1.set()
          go.wait(10)
      body.__name__ = '%s_ph%d' % (tag, i)
      ph = h.PhaseOptions(name=body.__name__)(body)
      if req:
        ph = L['plugs'].plug(**{arg: C[letter] for arg, letter in req})(ph)
      return ph
    t = h.Test(*[mk(i, r) for i, r in enumerate(reqs)])
    outs = []
    t.add_output_callbacks(lambda rec: (LOG.append(('callback', tag, rec.outcome.name if rec.outcome else None)), outs.append(rec))[1])
    return t

  tx = mk_test('X', reqx, held == 'X')
  ty = mk_test('Y', reqy, held == 'Y')
  first, second = (tx, ty) if held == 'X' else (ty, tx)
  res = {}
  th1 = threading.Thread(target=lambda: res.setdefault('first', first.execute()), name='run-' + held)
  th1.start()
  ok = in_p1.wait(10)
  try:
    res['second'] = second.execute() if ok else None
  finally:
    go.set()
    th1.join(20)
  return {'res': res, 'log': list(LOG), 'suspended_started': ok}


def check_overlap(variant, out):
  bad = []
  log = out['log']
  reqx, reqy, held = variant
  if not out['suspended_started']:
    return [('overlap-harness', 'the suspended run never reached its first phase')]
  for tag, reqs in (('X', reqx), ('Y', reqy)):
    phases = [(i, e) for i, e in enumerate(log) if e[0] == 'phase' and e[1].startswith(tag + '.')]
    cb = [i for i, e in enumerate(log) if e[0] == 'callback' and e[1] == tag]
    outcome = [e[2] for e in log if e[0] == 'callback' and e[1] == tag]
    if outcome != ['PASS']:
      bad.append(('overlap-outcome', 'run %s ended %r, expected one PASS record (phases seen %r)' % (tag, outcome, [e[1] for _, e in phases])))
    if len(phases) != len(reqs):
      bad.append(('overlap-phases', 'run %s executed %d of %d phases' % (tag, len(phases), len(reqs))))
    # one instance per class for this run: every phase sees the same object for the same class
    per_class = {}
    for (_, e), req in zip(phases, reqs):
      got = dict(e[2])
      for arg, letter in req:
        if arg not in got:
          bad.append(('overlap-injection', 'run %s phase %s did not receive %s' % (tag, e[1], arg)))
          continue
        per_class.setdefault(letter, set()).add(got[arg])
    for letter, ids in per_class.items():
      if len(ids) != 1:
        bad.append(('overlap-instances', 'run %s saw %d different instances of plug class %s' % (tag, len(ids), letter)))
      for pid in ids:
        tds = [i for i, e in enumerate(log) if e[0] == 'teardown' and e[2] == pid]
        if len(tds) != 1:
          bad.append(('overlap-teardown-count', 'the %s instance used by run %s had tearDown called %d times' % (letter, tag, len(tds))))
        elif phases and tds[0] < phases[-1][0]:
          bad.append(('overlap-teardown-early', 'the %s instance used by run %s was torn down before that run\'s last phase' % (letter, tag)))
        elif cb and tds[0] > cb[0]:
          bad.append(('overlap-teardown-late', 'the %s instance used by run %s was torn down after its output callback' % (letter, tag)))
    other = 'Y' if tag == 'X' else 'X'
    mine = {pid for ids in per_class.values() for pid in ids}
    theirs = {pid for _, e in [(i, e) for i, e in enumerate(log) if e[0] == 'phase' and e[1].startswith(other + '.')] for _, pid in e[2]}
    if mine & theirs:
      bad.append(('overlap-shared-instance', 'runs X and Y were handed the same plug instance'))
  return bad


def run_forced_abort():
  """Abort #1 while the main phase of a group runs, abort #2 (forced) while the group's teardown phase runs: every plug
  instance is still torn down exactly once, before the output callbacks.  Event-driven."""
  L = progs.lib()
  h = L['htf']
  C = classes()
  del LOG[:]
  FAULTS.clear()
  holder = {}
  in_main, in_td, go_on = threading.Event(), threading.Event(), threading.Event()

  def m(test, a):
    LOG.append(('phase', 'm', (('a', id(a)),)))
    in_main.set()
    while True:
      time.sleep(0.0005)

  def t(test, b):
    LOG.append(('phase', 't', (('b', id(b)),)))
    in_td.set()
    go_on.wait(5)
    while True:             # (ends when the forced abort cancels it)
      time.sleep(0.0005)

  mp = L['plugs'].plug(a=C['A'])(h.PhaseOptions(name='m')(m))
  tp = L['plugs'].plug(b=C['B'])(h.PhaseOptions(name='t', timeout_s=3)(t))
  test = h.Test(h.PhaseGroup(main=[mp], teardown=[tp]))
  holder['test'] = test
  test.add_output_callbacks(lambda rec: LOG.append(('callback', rec.outcome.name if rec.outcome else None)))

  def operator():
    if in_main.wait(5):
      test.abort_from_sig_int()
      if in_td.wait(5):
        test.abort_from_sig_int()
    go_on.set()

  th_ = threading.Thread(target=operator, name='operator')
  th_.daemon = True
  th_.start()
  try:
    res = test.execute()
  except BaseException as e:  # pylint: disable=broad-except
    res = 'EXC:%s' % type(e).__name__
  finally:
    go_on.set()
    h.Test.HANDLED_SIGINT_ONCE = False
  th_.join(5)
  log = list(LOG)
  bad = []
  inits = {e[1]: e[2] for e in log if e[0] == 'init'}
  cbs = [i for i, e in enumerate(log) if e[0] == 'callback']
  if not in_td.is_set():
    bad.append(('forced-abort:harness', 'the teardown phase never started (log %r)' % ([e[:2] for e in log],)))
  for cls, pid in inits.items():
    tds = [i for i, e in enumerate(log) if e[0] == 'teardown' and e[2] == pid]
    if len(tds) != 1:
      bad.append(('forced-abort:teardown-count', 'after a forced (second) abort the %s instance had tearDown called %d times' % (cls, len(tds))))
    elif cbs and tds[0] > cbs[0]:
      bad.append(('forced-abort:teardown-late', 'tearDown of %s ran after the output callback' % cls))
  if [e[1] for e in log if e[0] == 'callback'] != ['ABORTED']:
    bad.append(('forced-abort:outcome', 'callbacks saw %r' % ([e[1] for e in log if e[0] == 'callback'],)))
  return bad


OVERLAP_VARIANTS = [
    ([[('a', 'A')], [('a', 'A')]], [[('a', 'A')], [('a', 'A')]], 'X'),
    ([[('a', 'A')], [('a', 'A'), ('b', 'B')]], [[('b', 'B')], [('a', 'A')]], 'X'),
    ([[], [('a', 'A')]], [[('a', 'A')], []], 'X'),
    ([[('a', 'A')], [('c', 'C')]], [[('c', 'C')], [('c', 'C')]], 'Y'),
]


def replay(art):
  if art['replay'].get('forced_abort'):
    bad = run_forced_abort()
    for b in bad:
      print('VIOLATED', b)
    return 1 if bad else 0
  if 'overlap' in art['replay']:
    v = art['replay']['overlap']
    v = ([[tuple(x) for x in r] for r in v[0]], [[tuple(x) for x in r] for r in v[1]], v[2])
    out = run_overlap(v)
    print('log', [e[:2] for e in out['log']])
    bad = check_overlap(v, out)
    for b in bad:
      print('VIOLATED', b)
    return 1 if bad else 0
  case = art['replay']['case']
  case['fault'] = tuple(case['fault'])
  out = run_case(case)
  print('log', [e[:2] for e in out['log']])
  bad = check(case, out)
  for b in bad:
    print('VIOLATED', b)
  return 1 if bad else 0
