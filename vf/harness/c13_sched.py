"""C13 schedules part: two writers / two readers on one AdbTransportAdapter under the controlled scheduler."""
import struct
import threading
import time

from vf import common
from vf.harness import c13
from vf.sched import explore, runtime


class STransport(object):
  """Fake transport whose read/write are scheduling points; logs chunks with the writing thread."""

  def __init__(self, reads, slow_first_write_of=None):
    self.chunks = []
    self.reads = list(reads)
    self.slow = slow_first_write_of

  def write(self, data, timeout_ms=None):
    runtime.yield_point('transport.write')
    if self.slow == threading.current_thread().name:
      # this writer's first transfer (a header) takes longer than the writer's whole timeout
      self.slow = None
      time.sleep(0.3)
    self.chunks.append((threading.current_thread().name, c13.s2b(data)))
    runtime.yield_point('transport.write.done')

  def read(self, n, timeout_ms=None):
    runtime.yield_point('transport.read')
    if not self.reads:
      return ''
    r = self.reads.pop(0)
    if len(r) > n:
      self.reads.insert(0, r[n:])
      r = r[:n]
    runtime.yield_point('transport.read.done')
    return r

  def close(self):
    pass


W_MSGS = {
    'w1': [('WRTE', 1, 2, 'abc'), ('OKAY', 1, 2, '')],
    'w2': [('OKAY', 3, 4, ''), ('WRTE', 3, 4, 'xy')],
}
R_FRAMES = [('WRTE', 5, 6, 'hello'), ('OKAY', 7, 8, ''), ('WRTE', 9, 1, 'z'), ('CLSE', 2, 2, '')]


def scenario(kind):
  am, ue, timeouts = c13.mods()

  def fn(sched):
    if kind in ('writers', 'writers_timeout'):
      t = STransport([], slow_first_write_of='w1' if kind == 'writers_timeout' else None)
      ad = am.AdbTransportAdapter(t)
      errs = []

      def writer(name):
        for cmd, a0, a1, data in W_MSGS[name]:
          try:
            # 'writers_timeout': w1's timeout (0.2 s) expires while its first header is being transferred
            ad.write_message(am.AdbMessage(cmd, a0, a1, data),
                             timeouts.PolledTimeout(0.2 if kind == 'writers_timeout' and name == 'w1' else None))
          except Exception as e:  # pylint: disable=broad-except
            errs.append((name, repr(e)))

      ths = [threading.Thread(target=writer, args=(n,), name=n) for n in ('w1', 'w2')]
      for x in ths:
        x.start()
      for x in ths:
        x.join()
      return {'chunks': [(n, c.hex()) for n, c in t.chunks], 'errs': errs}
    # readers
    stream = []
    for cmd, a0, a1, data in R_FRAMES:
      b = c13.s2b(data)
      stream.append(c13.ref_header(cmd, a0, a1, b))
      if b:
        stream.append(data)
    t = STransport(stream)
    ad = am.AdbTransportAdapter(t)
    got = {'r1': [], 'r2': []}

    def reader(name):
      for _ in range(2):
        try:
          # 'readers_timeout': the second reader brings a finite timeout (nothing in a correct adapter waits on a
          # clock while the transport answers at once, so virtual time never reaches it)
          m = ad.read_message(timeouts.PolledTimeout(0.2 if kind == 'readers_timeout' and name == 'r2' else None))
          got[name].append((m.command, m.arg0, m.arg1, m.data))
        except Exception as e:  # pylint: disable=broad-except
          got[name].append(('ERR', type(e).__name__, str(e)[:60]))

    ths = [threading.Thread(target=reader, args=(n,), name=n) for n in ('r1', 'r2')]
    for x in ths:
      x.start()
    for x in ths:
      x.join()
    return {'got': got}

  return fn


def execute(kind, choices):
  am, ue, timeouts = c13.mods()
  sched, value = explore.run_under_scheduler(
      scenario(kind), choices, focus_targets=[am.AdbTransportAdapter.write_message, am.AdbTransportAdapter.read_message],
      focus_files=('openhtf/plugs/usb/adb_message.py',), max_steps=5000)
  result = {'value': value if isinstance(value, dict) else repr(value), 'failure': repr(sched.failure) if sched.failure else None}
  result['outcome_key'] = repr(value)[:400]
  return explore.Exec(list(choices), sched.points, result, sched.failure, sched.steps, len(sched.trace), sched.state_hashes)


def check(kind):
  def chk(ex):
    rep = {'part': 'schedules', 'kind': kind, 'choices': ex.choices}
    out = []
    v = ex.result['value']
    if ex.failure is not None or not isinstance(v, dict):
      out.append(('schedules:%s:failure' % kind, 'execution failed: %s / %s' % (ex.failure, v), rep))
      return out
    if kind in ('writers', 'writers_timeout'):
      chunks = [(n, bytes.fromhex(c)) for n, c in v['chunks']]
      if v['errs']:
        out.append(('schedules:writers:error', 'a writer raised %r' % (v['errs'],), rep))
      i = 0
      frames = []
      while i < len(chunks):
        who, h = chunks[i]
        if len(h) != 24:
          out.append(('schedules:writers:interleaved', 'chunk %d (%d bytes by %s) is not a header: frames interleave: %r'
                      % (i, len(h), who, [(n, len(c)) for n, c in chunks]), rep))
          break
        w, a0, a1, n, ck, mg = struct.unpack('<6I', h)
        i += 1
        payload = b''
        if n > 0 or (i < len(chunks) and chunks[i][1] == b'' and chunks[i][0] == who):
          if i >= len(chunks) or chunks[i][0] != who or len(chunks[i][1]) != n:
            out.append(('schedules:writers:interleaved', 'header of %s (payload %d bytes) is not followed by its payload: %r'
                        % (who, n, [(x, len(c)) for x, c in chunks]), rep))
            break
          payload = chunks[i][1]
          i += 1
        frames.append((who, c13.WORD_TO_CMD.get(w), a0, a1, c13.b2s(payload)))
      else:
        for name, msgs in W_MSGS.items():
          mine = [f[1:] for f in frames if f[0] == name]
          if mine != msgs:
            out.append(('schedules:writers:content', 'frames of %s on the wire %r, written %r' % (name, mine, msgs), rep))
    else:
      allgot = v['got']['r1'] + v['got']['r2']
      if any(g[0] == 'ERR' for g in allgot):
        out.append(('schedules:%s:error' % kind, 'a reader got an error although all frames are valid: %r' % (v['got'],), rep))
      elif sorted(allgot) != sorted(R_FRAMES):
        out.append(('schedules:%s:content' % kind, 'readers got %r, device sent %r' % (v['got'], R_FRAMES), rep))
    return out
  return chk


def run_into(rep, tier):
  explore.set_plan(common.thorough_budget(tier), 4)
  for kind in ('writers', 'writers_timeout', 'readers', 'readers_timeout'):
    bound = 2 if tier == 'quick' else 4
    r = explore.explore('C13:' + kind, lambda ch, kind=kind: execute(kind, ch), check(kind), bound, cap=400000)
    rep.merge_violations(r['violations'])
    rep.add_part('schedules two %s' % kind, states=max(1, r['states']), transitions=r['steps'],
                 traces_validated_against_impl=r['executions'], deviation_bound=bound, distinct_outcomes=len(r['outcomes']),
                 exhaustive=not r['capped'], decision_points_default=r['default_points'], samples=r['samples'] or [{'choices': []}])


def replay(r):
  ex = execute(r['kind'], r['choices'])
  bad = check(r['kind'])(ex)
  print(ex.result['value'])
  for b in bad:
    print('VIOLATED', b[0], b[1])
  return 1 if bad else 0
