"""C10 schedules part: a station reader polling the live view while the phase thread sets measurements.

After both threads are done (quiescent), one more read of the live view must agree with the in-memory measurements:
"incremental caches never serve stale or missing data".  Every source line of PhaseState.as_base_types / _notify and
of Measurement.as_base_types is a scheduling point.
"""
import threading

from vf import common
from vf import htf
from vf.ref import render
from vf.sched import explore, runtime


def mods():
  htf.init()
  import openhtf as h  # pylint: disable=g-import-not-at-top
  from openhtf.core import measurements, test_state  # pylint: disable=g-import-not-at-top
  return h, measurements, test_state


def scenario():
  h, measurements, test_state = mods()

  def fn(sched):
    res = {'reads': 0}

    def body(state):
      test = state.test_api
      ps = state.running_phase_state
      test.measurements.a = 1                 # pending before the reader starts

      started = threading.Event()

      def reader():
        started.set()
        for _ in range(2):
          ps.as_base_types()
          res['reads'] += 1

      rt = threading.Thread(target=reader, name='reader')
      rt.start()
      started.wait()          # the reader is polling from here on (one preemption inside its read is then enough)
      test.measurements.b = 2
      test.measurements.d[0] = 3
      test.measurements.a = 4                 # override while the reader may be refreshing
      rt.join()
      view = ps.as_base_types()               # quiescent read
      bad = []
      for name, m in ps.measurements.items():
        exp = render.measurement(m)
        got = view['measurements'].get(name, {})
        for key in ('outcome', 'measured_value'):
          if key in exp and (key not in got or not render.same(got[key], exp[key])):
            bad.append('%s.%s rendered %r, in-memory %r' % (name, key, got.get(key, '<absent>'), exp[key]))
      res['bad'] = bad

    body.__name__ = 'lv'
    ph = h.PhaseOptions(name='lv', requires_state=True)(body)
    ph = h.measures(h.Measurement('a'), h.Measurement('b'), h.Measurement('d').with_dimensions('x'))(ph)
    test = h.Test(ph)
    res['ok'] = test.execute()
    return res

  return fn


def scenario_logs():
  """Two threads of one phase log at the same time; afterwards the rendered log list is the in-memory one, in order."""
  h, measurements, test_state = mods()

  def fn(sched):
    res = {}

    def body(state):
      test = state.test_api

      def helper():
        test.logger.info('h1')
        test.logger.info('h2')

      ht = threading.Thread(target=helper, name='helper')
      ht.start()
      test.logger.info('b1')
      test.logger.info('b2')
      ht.join()
      rec = state.test_record
      mine = ('h1', 'h2', 'b1', 'b2')
      res['mem'] = [r.message for r in rec.log_records if r.message in mine]
      res['view'] = [r['message'] for r in rec.as_base_types()['log_records'] if r['message'] in mine]

    body.__name__ = 'lg'
    ph = h.PhaseOptions(name='lg', requires_state=True)(body)
    test = h.Test(ph)
    res['ok'] = test.execute()
    return res

  return fn


def execute_logs(choices):
  htf.init()
  from openhtf.core import test_record  # pylint: disable=g-import-not-at-top
  from openhtf.util import logs  # pylint: disable=g-import-not-at-top
  targets = [test_record.TestRecord.add_log_record, logs.RecordHandler.emit]
  # (the handler lock is created in logging/__init__.py: its operations are scheduling points too)
  sched, value = explore.run_under_scheduler(scenario_logs(), choices, focus_targets=targets,
                                             focus_files=('openhtf/util/logs.py', 'logging/__init__.py'), max_steps=60000)
  result = {'value': value if isinstance(value, dict) else repr(value), 'failure': repr(sched.failure) if sched.failure else None,
            'outcome_key': repr(value)[:300]}
  return explore.Exec(list(choices), sched.points, result, sched.failure, sched.steps, len(sched.trace), sched.state_hashes)


def check_logs(ex):
  rep = {'part': 'schedules', 'kind': 'logs', 'choices': ex.choices}
  v = ex.result['value']
  if ex.failure is not None or not isinstance(v, dict):
    return [('schedules:logs:failure', 'the two logging threads did not finish: %s / %s' % (ex.failure, v), rep)]
  out = []
  if sorted(v.get('mem') or []) != ['b1', 'b2', 'h1', 'h2']:
    out.append(('schedules:logs:lost', 'in-memory log records %r' % (v.get('mem'),), rep))
  if v.get('view') != v.get('mem'):
    out.append(('schedules:logs:order', 'rendered log records %r, in-memory %r' % (v.get('view'), v.get('mem')), rep))
  return out


def execute(choices):
  h, measurements, test_state = mods()
  targets = [test_state.PhaseState.as_base_types, test_state.PhaseState._notify, measurements.Measurement.as_base_types]  # pylint: disable=protected-access
  sched, value = explore.run_under_scheduler(scenario(), choices, focus_targets=targets, focus_files=('openhtf/core/test_state.py',),
                                             max_steps=60000)
  result = {'value': value if isinstance(value, dict) else repr(value), 'failure': repr(sched.failure) if sched.failure else None,
            'outcome_key': repr(value)[:300]}
  return explore.Exec(list(choices), sched.points, result, sched.failure, sched.steps, len(sched.trace), sched.state_hashes)


def check(ex):
  rep = {'part': 'schedules', 'choices': ex.choices}
  v = ex.result['value']
  if ex.failure is not None or not isinstance(v, dict):
    return [('schedules:failure', 'reader + phase thread did not finish: %s / %s' % (ex.failure, v), rep)]
  out = []
  if v.get('bad') is None:
    out.append(('schedules:phase-died', 'the phase body did not reach its final read (ok=%r)' % (v.get('ok'),), rep))
  for b in v.get('bad') or []:
    out.append(('schedules:stale-live-view', 'after the reader and the phase thread were done: %s' % b, rep))
  return out


def run_into(rep, tier):
  explore.set_plan(common.thorough_budget(tier), 2)
  bound = 1 if tier == 'quick' else 2
  r = explore.explore('C10:S', execute, check, bound, cap=60000 if tier == 'quick' else 400000)
  rep.merge_violations(r['violations'])
  rep.add_part('schedules live-view reader vs phase thread', states=max(1, r['states']), transitions=r['steps'],
               traces_validated_against_impl=r['executions'], evaluations=r['executions'], distinct_nontrivial=len(r['outcomes']),
               deviation_bound=bound, exhaustive=not r['capped'], samples=r['samples'] or [{'choices': []}])
  r = explore.explore('C10:L', execute_logs, check_logs, bound, cap=60000 if tier == 'quick' else 400000)
  rep.merge_violations(r['violations'])
  rep.add_part('schedules two logging threads', states=max(1, r['states']), transitions=r['steps'],
               traces_validated_against_impl=r['executions'], evaluations=r['executions'], distinct_nontrivial=len(r['outcomes']),
               deviation_bound=bound, exhaustive=not r['capped'], samples=r['samples'] or [{'choices': []}])


def replay(r):
  if r.get('kind') == 'logs':
    ex = execute_logs(r['choices'])
    bad = check_logs(ex)
  else:
    ex = execute(r['choices'])
    bad = check(ex)
  print(ex.result['value'])
  for b in bad:
    print('VIOLATED', b[0], b[1])
  return 1 if bad else 0
