"""C15 ADB connection lifecycle: handshake automaton + stream session BFS.

handshake  every device reply script up to the depth bound (extended exactly
           while the reference says the host is still waiting) x 0..2 signers,
           run on the real AdbConnection.connect over a scripted transport and
           compared with vf/ref/adbspec.handshake: exact host message sequence
           and result / error category.
streams    explicit-state BFS over histories of {open (OKAY/CLSE/WRTE/silent
           reply), close, device WRTE/CLSE/illegal packet, read} with
           STREAM_ID_LIMIT patched to 4 so id wrap-around is inside the bound;
           each history replayed on a fresh real connection, each step compared
           with a boring reference model of the session (dicts and lists).
"""
import collections
import queue as std_queue
import struct
import types

from vf import common, usbstub
from vf.harness import c13
from vf.ref import adbspec

PID = 'C15'
ID_LIMIT = 4


def mods():
  usbstub.install()
  from openhtf.plugs.usb import adb_message, adb_protocol, usb_exceptions  # pylint: disable=g-import-not-at-top
  from openhtf.util import timeouts  # pylint: disable=g-import-not-at-top
  import libusb1  # pylint: disable=g-import-not-at-top
  return adb_message, adb_protocol, usb_exceptions, timeouts, libusb1


class FastQueue(std_queue.Queue):
  """Single-threaded harness: an empty queue stays empty, never wait for real."""

  def get(self, block=True, timeout=None):
    return std_queue.Queue.get(self, False)


QUEUE_SHIM = types.SimpleNamespace(Queue=FastQueue, Empty=std_queue.Empty)


def frame(cmd, a0, a1, data=''):
  b = c13.s2b(data)
  return c13.ref_header(cmd, a0, a1, b), data


class Device(object):
  """Scripted device end of the transport.  rx = decoded host messages."""

  def __init__(self, clock, ue, libusb1):
    self.clock = clock
    self.ue = ue
    self.libusb1 = libusb1
    self.wire = collections.deque()   # items: ('msg', (cmd,a0,a1,data)) | ('corrupt',) | ('silence',)
    self.pending_payload = None
    self.rx = []
    self._hdr = None
    self.consumed = []                # items handed to the host, in order
    self.on_rx = None

  # transport interface -------------------------------------------------------
  def write(self, data, timeout_ms=None):
    if self._hdr is None:
      self._hdr = bytes(data)
      assert len(self._hdr) == 24, 'host wrote a %d-byte header chunk' % len(self._hdr)
      return
    w, a0, a1, n, ck, mg = struct.unpack('<6I', self._hdr)
    self._hdr = None
    msg = (c13.WORD_TO_CMD.get(w, '?%08x' % w), a0, a1, data)
    if n != len(data) or (sum(c13.s2b(data)) & 0xffffffff) != ck:
      msg = ('BADFRAME',) + msg
    self.rx.append(msg)
    if self.on_rx:
      self.on_rx(msg)

  def read(self, n, timeout_ms=None):
    if self.pending_payload is not None:
      p, self.pending_payload = self.pending_payload, None
      return p
    if not self.wire or self.wire[0][0] == 'silence':
      if self.wire:
        self.consumed.append(self.wire.popleft())
      self.clock.now += (timeout_ms / 1000.0 if timeout_ms is not None else 1.0) + 0.001
      raise self.ue.UsbReadFailedError(self.libusb1.USBError(self.libusb1.LIBUSB_ERROR_TIMEOUT))
    item = self.wire.popleft()
    self.consumed.append(item)
    if item[0] == 'corrupt':
      h, payload = frame('WRTE', 1, 1, 'xy')
      hb = bytearray(h)
      hb[16] ^= 0x01  # checksum off by one
      self.pending_payload = payload
      return bytes(hb)
    cmd, a0, a1, data = item[1]
    h, payload = frame(cmd, a0, a1, data)
    if data:
      self.pending_payload = payload
    if item[0] == 'slowmsg':
      self.clock.now += 1000.0       # this packet trickles in: every deadline has passed by the time it is there
    return h

  def close(self):
    pass


def categorize(exc, ue):
  if exc is None:
    return None
  if isinstance(exc, ue.DeviceAuthError):
    return 'auth'
  if isinstance(exc, (ue.AdbProtocolError, ue.AdbDataIntegrityError)):
    return 'protocol'
  if isinstance(exc, ue.AdbTimeoutError):
    return 'timeout'
  if isinstance(exc, ue.UsbReadFailedError) and exc.is_timeout():
    return 'timeout'
  if isinstance(exc, ue.AdbStreamClosedError):
    return 'closed'
  if isinstance(exc, ue.AdbStreamUnavailableError):
    return 'unavailable'
  return 'other:%s:%s' % (type(exc).__name__, str(exc)[:80])


class Signer(object):

  def __init__(self, k, log):
    self.k = k
    self.log = log

  def sign(self, data):
    self.log.append(('sign', self.k, data))
    return 'sig%d(%s)' % (self.k, data)

  def get_public_key(self):
    self.log.append(('pub', self.k))
    return 'pub%d' % self.k


class Env(object):
  """Fake clock + queue shim installed into the openhtf modules for one run."""

  def __enter__(self):
    am, ap, ue, timeouts, libusb1 = mods()
    self.m = (am, ap, ue, timeouts, libusb1)
    self.clock = c13.FakeTime()
    self._time = timeouts.time
    self._queue = ap.queue
    self._limit = ap.STREAM_ID_LIMIT
    timeouts.time = self.clock
    ap.queue = QUEUE_SHIM
    ap.STREAM_ID_LIMIT = ID_LIMIT
    return self

  def __exit__(self, *a):
    am, ap, ue, timeouts, libusb1 = self.m
    timeouts.time = self._time
    ap.queue = self._queue
    ap.STREAM_ID_LIMIT = self._limit
    return False


# ---- handshake ---------------------------------------------------------------
HS_ALPHA = [
    ('msg', ('CNXN', 0x01000000, 4096, 'device:SER1:the banner')),
    ('msg', ('CNXN', 0x01000000, 256, 'recovery::x:y')),
    ('msg', ('CNXN', 0x01000000, 4096, 'nobanner')),
    ('msg', ('AUTH', 1, 0, 'tokA')),
    ('msg', ('AUTH', 1, 0, 'tokB')),
    ('msg', ('AUTH', 2, 0, 'notatoken')),
    ('msg', ('OKAY', 1, 1, '')),
    ('msg', ('WRTE', 1, 1, 'x')),
    ('msg', ('OPEN', 1, 0, 'shell:\0')),
    ('corrupt',),
    ('silence',),
    ('slowmsg', ('OPEN', 1, 0, 'shell:\0')),     # an unrelated packet that arrives as the time budget runs out
]
HS_ALPHA_MORE = [
    ('msg', ('AUTH', 3, 0, 'k')),
    ('msg', ('CLSE', 1, 1, '')),
    ('msg', ('SYNC', 1, 0, '')),
    ('msg', ('CNXN', 0x01000000, 0, '::')),
]


def run_handshake(script, nkeys):
  with Env() as env:
    am, ap, ue, timeouts, libusb1 = env.m
    dev = Device(env.clock, ue, libusb1)
    dev.wire.extend(script)
    log = []
    keys = [Signer(k, log) for k in range(nkeys)]
    conn, exc = None, None
    try:
      conn = ap.AdbConnection.connect(dev, rsa_keys=keys or None, timeout_ms=1000, auth_timeout_ms=100)
    except Exception as e:  # pylint: disable=broad-except
      exc = e
    exp = adbspec.handshake(script, nkeys)
    bad = []
    if dev.rx != exp['writes']:
      bad.append(('writes', 'host sent %r, expected %r' % (dev.rx, exp['writes'])))
    if exp['result'][0] == 'conn':
      if conn is None:
        bad.append(('result', 'expected a connection, got %r' % (exc,)))
      else:
        got = ('conn', conn.maxdata, conn.systemtype, conn.serial, conn.banner)
        if got != exp['result']:
          bad.append(('connfields', 'connection fields %r expected %r' % (got, exp['result'])))
    else:
      cat = categorize(exc, ue)
      if conn is not None:
        bad.append(('result', 'connection returned, expected %s error' % exp['result'][1]))
      elif cat != exp['result'][1]:
        bad.append(('errclass', 'raised %s (%r), expected a %s error' % (cat, exc, exp['result'][1])))
    if len(dev.consumed) != exp['consumed'] and not exp['waiting']:
      bad.append(('consumed', 'host consumed %d device packets, expected %d' % (len(dev.consumed), exp['consumed'])))
    outcome = exp['result'][:2]
    return bad, exp['waiting'], outcome


def _hs_work(item):
  nkeys, first, depth, alpha = item
  states = transitions = 0
  viols, outcomes, samples = [], set(), []
  stack = [[first]]
  while stack:
    script = stack.pop()
    bad, waiting, outcome = run_handshake(script, nkeys)
    states += 1
    outcomes.add(outcome)
    for kind, what in bad:
      shape = '|'.join((s[1][0] + str(s[1][1] if s[1][0] == 'AUTH' else '')) if s[0] == 'msg' else s[0] for s in script)
      viols.append(('handshake:%s:keys=%d:%s' % (kind, nkeys, shape),
                    'keys=%d script=%r: %s' % (nkeys, script, what), {'part': 'handshake', 'nkeys': nkeys, 'script': script}))
    if len(samples) < 2 and len(script) >= 3:
      samples.append({'keys': nkeys, 'script': script, 'expected': repr(outcome)})
    if waiting and len(script) < depth:
      for a in alpha:
        transitions += 1
        stack.append(script + [a])
  return states, transitions, viols, sorted(map(repr, outcomes)), samples


# ---- streams -----------------------------------------------------------------
class RefSession(object):
  """Boring model of the host-side session (single-threaded).

  Streams are keyed by a unique creation number (sid); local ids may be reused
  once released, so `by_local` maps only the ids currently held in the map.
  """

  def __init__(self):
    self.streams = {}      # sid -> dict(local, remote, state, in_map, queue, buffer)
    self.by_local = {}     # local id -> sid, for streams currently in the connection's map
    self.slots = []        # sids of successful opens, in order
    self.expected_writes = []
    self.next_sid = 0

  def key(self):
    return (tuple((sid, s['local'], s['remote'], s['state'], s['in_map'], tuple(s['queue']), s['buffer'])
                  for sid, s in sorted(self.streams.items()) if s['in_map'] or s['queue'] or s['buffer'] or sid in self.slots),
            tuple(self.slots))

  def in_map_ids(self):
    return set(self.by_local)

  def route(self, m, for_sid):
    """One consumed wire message while stream for_sid is reading: ('mine', m) | ('routed',) | ('protocol',)."""
    cmd, a0, a1, data = m
    if cmd not in ('OKAY', 'CLSE', 'WRTE'):
      return ('protocol',)
    me = self.streams[for_sid]
    if a1 == me['local']:
      if cmd == 'WRTE':
        if not me['remote']:
          return ('protocol',)
        self.expected_writes.append(('OKAY', me['local'], me['remote'], ''))
      elif cmd == 'CLSE':
        self.close_map(for_sid)
      return ('mine', m)
    sid = self.by_local.get(a1)
    if sid is not None:
      s = self.streams[sid]
      if cmd == 'CLSE':
        self.close_map(sid)
      if cmd == 'WRTE':
        if not s['remote']:
          return ('protocol',)   # device wrote to a half-open stream
        self.expected_writes.append(('OKAY', s['local'], s['remote'], ''))
      elif cmd == 'OKAY':
        if not s['remote']:
          s['remote'] = a0
          s['state'] = 'open'
        elif s['remote'] != a0:
          return ('protocol',)
      s['queue'].append(m)
    return ('routed',)

  def close_map(self, sid):
    s = self.streams[sid]
    if s['in_map']:
      s['in_map'] = False
      del self.by_local[s['local']]
      if s['remote']:
        self.expected_writes.append(('CLSE', s['local'], s['remote'], ''))

  def next_message(self, sid, wire):
    """('msg', m) | ('timeout',) | ('protocol',) | ('closed',)."""
    s = self.streams[sid]
    if s['in_map']:
      if s['queue']:
        return ('msg', s['queue'].pop(0))
      while True:
        if not wire or wire[0][0] == 'silence':
          if wire:
            wire.popleft()
          return ('timeout',)
        item = wire.popleft()
        if item[0] == 'corrupt':
          return ('protocol',)
        r = self.route(item[1], sid)
        if r[0] == 'mine':
          return ('msg', r[1])
        if r[0] == 'protocol':
          return r
    if s['queue']:
      return ('msg', s['queue'].pop(0))
    return ('closed',)

  def handle(self, sid, m):
    s = self.streams[sid]
    cmd, a0, _, data = m
    if cmd == 'OKAY':
      if not s['remote']:
        s['remote'] = a0
        s['state'] = 'open'
      else:
        # an OKAY for a stream that is already open and has no write pending (the model has no writes): illegal here
        return 'protocol'
    elif cmd == 'CLSE':
      s['state'] = 'closed'
    else:
      s['buffer'] += data
    return None

  def op_open(self, local, wire):
    sid = self.next_sid
    self.next_sid += 1
    self.streams[sid] = dict(local=local, remote=0, state='pending', in_map=True, queue=[], buffer='')
    self.by_local[local] = sid
    r = self.next_message(sid, wire)
    if r[0] != 'msg':
      return r
    m = r[1]
    if m[0] == 'WRTE':
      return ('protocol',)
    self.handle(sid, m)
    if self.streams[sid]['state'] == 'open':
      self.slots.append(sid)
      return ('stream',)
    return ('none',)

  def op_read(self, sid, length, wire):
    s = self.streams[sid]
    while not (len(s['buffer']) and len(s['buffer']) >= length):
      r = self.next_message(sid, wire)
      if r[0] != 'msg':
        return r
      if self.handle(sid, r[1]) == 'protocol':
        return ('protocol',)
    if length:
      data, s['buffer'] = s['buffer'][:length], s['buffer'][length:]
    else:
      data, s['buffer'] = s['buffer'], ''
    return ('data', data)

  def op_close(self, sid):
    s = self.streams[sid]
    if s['state'] == 'closed':
      return ('ok',)
    s['state'] = 'closed'
    self.close_map(sid)
    return ('ok',)


def stream_ops(nslots):
  ops = [('open', 'ok'), ('open', 'clse'), ('open', 'wrte'), ('open', 'silent')]
  for s in range(nslots):
    ops += [('close', s), ('dev_wrte', s, 'ab'), ('dev_clse', s), ('read', s, 0), ('read', s, 1), ('read', s, 3)]
  ops += [('dev_illegal', 'CNXN'), ('dev_illegal', 'OPEN'), ('dev_unknown_id',)]
  return ops


def run_history(hist):
  """Replays hist on a fresh real connection + model. Returns (viols, key, enabled_slots)."""
  with Env() as env:
    am, ap, ue, timeouts, libusb1 = env.m
    dev = Device(env.clock, ue, libusb1)
    conn = ap.AdbConnection(am.AdbTransportAdapter(dev), 4096, 'device:ser:banner')
    model = RefSession()
    viols = []
    streams = []          # impl AdbStream objects per slot
    mode = {'open': None}
    remote_counter = [100]

    def on_rx(msg):
      if msg[0] == 'OPEN' and mode['open']:
        local = msg[1]
        remote_counter[0] += 1
        if mode['open'] == 'ok':
          dev.wire.append(('msg', ('OKAY', remote_counter[0], local, '')))
        elif mode['open'] == 'clse':
          dev.wire.append(('msg', ('CLSE', 0, local, '')))
        elif mode['open'] == 'wrte':
          dev.wire.append(('msg', ('WRTE', remote_counter[0], local, 'zz')))
        mode['open'] = None

    dev.on_rx = on_rx
    for step, op in enumerate(hist):
      last = step == len(hist) - 1
      rx_before = len(dev.rx)
      exp_before = len(model.expected_writes)
      got = exp = None
      pre = list(dev.wire)
      model_wire = collections.deque(pre)
      if op[0] == 'open':
        mode['open'] = op[1]
        in_use = model.in_map_ids()
        res, exc = None, None
        try:
          res = conn.open_stream('shell:ls', timeout_ms=50)
        except Exception as e:  # pylint: disable=broad-except
          exc = e
        opens = [m for m in dev.rx[rx_before:] if m[0] == 'OPEN']
        if exc is not None and not opens:
          got = ('err', categorize(exc, ue))
          exp = ('err', 'unavailable') if len(in_use) >= ID_LIMIT - 1 else ('open-sent',)
        else:
          if len(opens) != 1:
            viols.append(('open-count', 'open_stream sent %d OPEN messages' % len(opens)))
            break
          local = opens[0][1]
          if not (0 < local < ID_LIMIT) or local in in_use:
            viols.append(('id', 'OPEN uses local id %r while ids %r are in use (limit %d)' % (local, sorted(in_use), ID_LIMIT)))
          if opens[0][2] != 0 or opens[0][3] != 'shell:ls\0':
            viols.append(('open-msg', 'malformed OPEN %r' % (opens[0],)))
          # the device's reactive reply was appended to the wire by on_rx
          reply = {'ok': [('msg', ('OKAY', remote_counter[0], local, ''))],
                   'clse': [('msg', ('CLSE', 0, local, ''))],
                   'wrte': [('msg', ('WRTE', remote_counter[0], local, 'zz'))],
                   'silent': []}[op[1]]
          mw = collections.deque(pre + reply)
          model.expected_writes.append(('OPEN', local, 0, 'shell:ls\0'))
          r = model.op_open(local, mw)
          exp = r if r[0] in ('stream', 'none') else ('err', r[0])
          if exc is not None:
            got = ('err', categorize(exc, ue))
          elif res is None:
            got = ('none',)
          else:
            got = ('stream',)
            streams.append(res)
            ms = model.streams[model.slots[-1]] if model.slots else None
            if ms is not None and (res._transport.local_id, res._transport.remote_id) != (ms['local'], ms['remote']):  # pylint: disable=protected-access
              viols.append(('ids', 'stream ids %r, expected (%d,%d)' % (res, ms['local'], ms['remote'])))
          model_wire = mw
      elif op[0] == 'close':
        local = model.slots[op[1]]
        exc = None
        try:
          streams[op[1]].close(timeout_ms=50)
        except Exception as e:  # pylint: disable=broad-except
          exc = e
        got = ('ok',) if exc is None else ('err', categorize(exc, ue))
        exp = model.op_close(local)
      elif op[0] == 'read':
        local = model.slots[op[1]]
        res, exc = None, None
        try:
          res = streams[op[1]].read(op[2], timeout_ms=50)
        except Exception as e:  # pylint: disable=broad-except
          exc = e
        if exc is not None:
          c = categorize(exc, ue)
          got = ('closed',) if c == 'closed' else ('err', c)
        elif not res:
          got = ('closed',)   # None / '' also "reports the stream closed"
        else:
          got = ('data', res)
        r = model.op_read(local, op[2], model_wire)
        exp = r if r[0] in ('data', 'closed') else ('err', r[0])
      elif op[0] == 'dev_wrte':
        ms = model.streams[model.slots[op[1]]]
        dev.wire.append(('msg', ('WRTE', ms['remote'], ms['local'], op[2])))
        model_wire = None
      elif op[0] == 'dev_clse':
        ms = model.streams[model.slots[op[1]]]
        dev.wire.append(('msg', ('CLSE', ms['remote'], ms['local'], '')))
        model_wire = None
      elif op[0] == 'dev_illegal':
        dev.wire.append(('msg', (op[1], 1, 0, 'host::\0' if op[1] == 'CNXN' else 'x\0')))
        model_wire = None
      elif op[0] == 'dev_unknown_id':
        dev.wire.append(('msg', ('WRTE', 77, ID_LIMIT + 3, 'stray')))
        model_wire = None
      if got != exp and exp is not None and exp != ('open-sent',):
        viols.append(('result:%s' % op[0], 'step %d %r: impl %r, model %r' % (step, op, got, exp)))
        break
      if model_wire is not None:
        # both sides must have consumed the same device packets
        if list(model_wire) != list(dev.wire):
          viols.append(('consumed:%s' % op[0], 'step %d %r: device queue after op: impl %r model %r'
                        % (step, op, list(dev.wire), list(model_wire))))
          break
      new_rx = dev.rx[rx_before:]
      new_exp = model.expected_writes[exp_before:]
      if new_rx != new_exp:
        viols.append(('writes:%s' % op[0], 'step %d %r: host sent %r, expected %r' % (step, op, new_rx, new_exp)))
        break
    # impl state for de-duplication
    with conn._stream_transport_map_lock:  # pylint: disable=protected-access
      imap = tuple(sorted(conn._stream_transport_map))  # pylint: disable=protected-access
    ikey = (imap, conn._last_id_used, tuple(  # pylint: disable=protected-access
        (s._transport.local_id, s._transport.closed_state.name, ''.join(s._transport._read_buffer),  # pylint: disable=protected-access
         s._transport.message_queue.qsize()) for s in streams), tuple(dev.wire))
    return viols, (ikey, model.key()), len(model.slots)


def enabled_ops(nslots_open, all_ops):
  return [o for o in all_ops if o[0] in ('open', 'dev_illegal', 'dev_unknown_id') or o[1] < nslots_open]


def _expand(item):
  hist, ops = item
  out = []
  for op in ops:
    viols, key, nslots = run_history(hist + [op])
    out.append((op, viols, key, nslots))
  return out


def bfs_streams(max_slots, max_depth, seeds, rep):
  all_ops = stream_ops(max_slots)
  seen = set()
  frontier = []
  for seed in seeds:
    viols, key, nslots = run_history(seed)
    for kind, what in viols:
      rep.violation('streams:seed:%s' % kind, 'seed %r: %s' % (seed, what), {'part': 'streams', 'hist': seed})
    if key not in seen:
      seen.add(key)
      frontier.append((seed, nslots))
  transitions, depth = 0, 0
  samples = []
  while frontier and depth < max_depth:
    depth += 1
    items = [(h, common.rotate(enabled_ops(n, all_ops))) for h, n in frontier]
    results = common.pmap(_expand, items)
    nxt = []
    for (h, _), res in zip(frontier, results):
      for op, viols, key, nslots in res:
        transitions += 1
        for kind, what in viols:
          rep.violation('streams:%s:%s' % (kind, '>'.join('%s%s' % (o[0], o[1] if o[0] in ('open', 'dev_illegal') else '') for o in h[-2:] + [op])),
                        'history %r: %s' % (h + [op], what), {'part': 'streams', 'hist': h + [op]})
        if viols:
          continue  # do not explore beyond a disagreement
        if key not in seen:
          seen.add(key)
          nxt.append((h + [op], nslots))
          if len(samples) < 3 and len(h) >= 3:
            samples.append(h + [op])
    frontier = nxt
  return {'states': len(seen), 'transitions': transitions, 'depth': depth, 'fixpoint': not frontier, 'samples': samples}


def run(tier):
  rep = common.Report(PID, tier, 'model_checking')
  # handshake
  depth = 4 if tier == 'quick' else 5
  alpha = HS_ALPHA + (HS_ALPHA_MORE if tier == 'thorough' else [])
  items = [(nk, a, depth, alpha) for nk in (0, 1, 2) for a in alpha]
  res = common.pmap(_hs_work, items, chunksize=1)
  st = sum(r[0] for r in res)
  tr = sum(r[1] for r in res)
  outcomes = set()
  samples = []
  for r in res:
    rep.merge_violations(r[2])
    outcomes.update(r[3])
    samples.extend(r[4][:1])
  rep.add_part('handshake', states=st, transitions=tr, traces_validated_against_impl=st, exhaustive=True,
               depth=depth, distinct_outcomes=len(outcomes), samples=samples[:3])
  # streams
  seeds = [[], [('open', 'ok'), ('close', 0)], [('open', 'ok'), ('close', 0), ('open', 'ok'), ('close', 1)],
           [('open', 'ok'), ('open', 'ok'), ('close', 0)]]
  r = bfs_streams(2 if tier == 'quick' else 3, 5 if tier == 'quick' else 6, seeds, rep)
  rep.add_part('streams', states=r['states'], transitions=r['transitions'],
               traces_validated_against_impl=r['transitions'], exhaustive=r['fixpoint'],
               depth_completed=r['depth'], samples=r['samples'])
  rep.assumptions = [
      'single-threaded histories (concurrency of streams is C14); STREAM_ID_LIMIT patched to %d' % ID_LIMIT,
      'silence = transport read raising UsbReadFailedError(timeout) with a virtual clock; noise packets take no time',
      'states are de-duplicated on (stream map, last id, per-stream closed state/buffer/queue size, device queue) '
      'paired with the model state; exploration does not continue past a disagreement',
  ]
  return rep.finish(rule='handshake: all reply scripts up to depth (extended while host waits) x 0-2 keys; '
                         'streams: BFS over op histories from 4 seed states, every step compared with the model')


def replay(art):
  r = art['replay']
  if r['part'] == 'handshake':
    script = [tuple(i) if i[0] != 'msg' else ('msg', tuple(i[1])) for i in r['script']]
    bad, _, out = run_handshake(script, r['nkeys'])
  else:
    hist = [tuple(o) for o in r['hist']]
    bad, _, _ = run_history(hist)
  for b in bad:
    print('MISMATCH', b)
  return 1 if bad else 0
