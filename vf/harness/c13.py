"""C13 ADB framing: exhaustive input/fault enumeration + (Engine S) writer/reader schedules.

Parts
  roundtrip  every payload of length <= 2 over all 256 byte values, plus the
             command x argument grid and long payload shapes, written through
             the real AdbTransportAdapter onto a chunk-logging transport,
             compared with an independent struct codec, and read back.
  faults     every single-bit flip of the 24 header bytes, +-1 on length and
             checksum, unknown command words, every header truncation 0..23,
             payload short/long by one -- decoded by an independent validity
             rule; invalid frames must raise an ADB integrity/protocol error.
  deadline   the clock passes the deadline at every point of a write / read;
             once the header went out the payload must follow.
  schedules  two writers / two readers on one adapter under the controlled
             scheduler (see vf/sched), all interleavings up to the bound.
"""
import itertools
import struct
import types

from vf import common, usbstub

PID = 'C13'
CMDS = ['SYNC', 'CNXN', 'AUTH', 'OPEN', 'OKAY', 'CLSE', 'WRTE']
ARGS = [0, 1, 0x7fffffff, 0xffffffff]


def mods():
  usbstub.install()
  from openhtf.plugs.usb import adb_message, usb_exceptions  # pylint: disable=g-import-not-at-top
  from openhtf.util import timeouts  # pylint: disable=g-import-not-at-top
  try:
    # the sync service defines its own command ids with the same helper: loading it must not widen what the ADB framing accepts
    from openhtf.plugs.usb import filesync_service  # pylint: disable=g-import-not-at-top,unused-import
  except Exception:  # pylint: disable=broad-except
    pass
  return adb_message, usb_exceptions, timeouts


# ---- independent codec -----------------------------------------------------
def cmdword(cmd):
  return int.from_bytes(cmd.encode('ascii'), 'little')


WORD_TO_CMD = {cmdword(c): c for c in CMDS}


def ref_header(cmd, a0, a1, payload):
  w = cmdword(cmd)
  return struct.pack('<IIIIII', w, a0, a1, len(payload),
                     sum(payload) & 0xffffffff, w ^ 0xffffffff)


def ref_decode(header, payload_avail):
  """(ok, (cmd,a0,a1,payload)) by the statement's validity rule; magic ignored."""
  if len(header) != 24:
    return False, None
  w, a0, a1, n, ck, _ = struct.unpack('<IIIIII', header)
  if w not in WORD_TO_CMD:
    return False, None
  got = payload_avail[:n] if n > 0 else b''
  if len(got) != n or (sum(got) & 0xffffffff) != ck:
    return False, None
  return True, (WORD_TO_CMD[w], a0, a1, got)


def s2b(s):
  return s.encode('latin-1') if isinstance(s, str) else bytes(s)


def b2s(b):
  return b.decode('latin-1')


class Transport(object):
  """Chunk-logging fake; reads are served from a list of prepared chunks."""

  def __init__(self, reads=()):
    self.writes = []
    self.reads = list(reads)
    self.read_calls = []
    self.on_write = None
    self.on_read = None

  def write(self, data, timeout_ms=None):
    self.writes.append((data, timeout_ms))
    if self.on_write:
      self.on_write(len(self.writes))

  def read(self, n, timeout_ms=None):
    self.read_calls.append((n, timeout_ms))
    if self.on_read:
      self.on_read(len(self.read_calls))
    if not self.reads:
      return ''
    r = self.reads.pop(0)
    if len(r) > n:  # a read never returns more than was asked for
      self.reads.insert(0, r[n:])
      r = r[:n]
    return r

  def close(self):
    pass


def never():
  _, _, timeouts = mods()
  return timeouts.PolledTimeout(None)


def roundtrip_one(am, cmd, a0, a1, payload_b):
  """Returns list of (kind, what)."""
  bad = []
  payload = b2s(payload_b)
  t = Transport()
  ad = am.AdbTransportAdapter(t)
  ad.write_message(am.AdbMessage(cmd, a0, a1, payload), never())
  chunks = [s2b(d) for d, _ in t.writes]
  wire = b''.join(chunks)
  exp = ref_header(cmd, a0, a1, payload_b) + payload_b
  if wire != exp:
    bad.append(('wire', 'wire bytes %r != expected %r' % (wire[:40], exp[:40])))
  if not chunks or chunks[0] != exp[:24]:
    bad.append(('chunking', 'first chunk is not the 24-byte header: %r' % (chunks[:1],)))
  # read back: the transport hands out header then payload
  t2 = Transport([exp[:24]] + ([payload] if payload_b else []))
  ad2 = am.AdbTransportAdapter(t2)
  try:
    m = ad2.read_message(never())
    got = (m.command, m.arg0, m.arg1, s2b(m.data))
    if got != (cmd, a0, a1, payload_b):
      bad.append(('readback', 'read back %r, wrote %r' % (got, (cmd, a0, a1, payload_b))))
  except Exception as e:  # pylint: disable=broad-except
    bad.append(('readback', 'valid frame rejected: %r' % (e,)))
  return bad


def _rt_chunk(first):
  am, _, _ = mods()
  viols, n, distinct = [], 0, set()
  if first == 'grid':
    payloads = [b'', b'\x00', b'\xff', b'ab', bytes(range(256)), b'\xff' * 255, b'\x01' * 256,
                b'\x7f' * 4095, bytes([i % 251 for i in range(4096)]), b'\xff' * 4096, b'xyz']
    for cmd in CMDS:
      for a0 in ARGS:
        for a1 in ARGS:
          for p in payloads:
            n += 1
            distinct.add((cmd, a0, a1, len(p), p[:2]))
            for kind, what in roundtrip_one(am, cmd, a0, a1, p):
              viols.append(('roundtrip:%s:%s:len%d' % (kind, cmd, len(p)),
                            '%s(%d,%d) payload len %d: %s' % (cmd, a0, a1, len(p), what),
                            {'cmd': cmd, 'a0': a0, 'a1': a1, 'payload_hex': p.hex()[:200]}))
    return n, len(distinct), viols
  # all payloads with this first byte, length 1 and 2 (and the empty one once)
  ps = [bytes([first])] + [bytes([first, b]) for b in range(256)]
  if first == 0:
    ps.append(b'')
  for p in ps:
    n += 1
    distinct.add(p)
    for kind, what in roundtrip_one(am, 'WRTE', 1, 2, p):
      viols.append(('roundtrip:%s:WRTE:payload=%s' % (kind, p.hex()),
                    'WRTE(1,2) payload %r: %s' % (p, what),
                    {'cmd': 'WRTE', 'a0': 1, 'a1': 2, 'payload_hex': p.hex()}))
  return n, len(distinct), viols


def fault_frames():
  """Yields (label, header_bytes_served, payload_served_or_None)."""
  big = bytes((i * 7) % 251 for i in range(4096))      # a payload exactly at the usual maxdata
  for cmd, payload in [(c, b'ab') for c in CMDS] + [('OKAY', b''), ('CLSE', b''), ('WRTE', b'\x00'), ('WRTE', b'\xff\xff\xff'),
                                                     ('WRTE', big), ('WRTE', big[:4095])]:
    h = ref_header(cmd, 3, 4, payload)
    base = '%s/%d' % (cmd, len(payload))
    for bit in range(192):
      hb = bytearray(h)
      hb[bit // 8] ^= 1 << (bit % 8)
      yield ('%s:flip%d' % (base, bit), bytes(hb), payload)
    w, a0, a1, n, ck, mg = struct.unpack('<IIIIII', h)
    for dn in (-1, 1, 4096, 0x7fffffff - n):
      if n + dn >= 0:
        yield ('%s:len%+d' % (base, dn), struct.pack('<IIIIII', w, a0, a1, n + dn, ck, mg), payload)
      yield ('%s:sum%+d' % (base, dn), struct.pack('<IIIIII', w, a0, a1, n, (ck + dn) & 0xffffffff, mg), payload)
    for badw in (0, 0xffffffff, cmdword('XXXX'), cmdword('okay'), w + 1, cmdword('DATA'), cmdword('STAT'), cmdword('SEND'), cmdword('DONE'),
                 cmdword('FAIL'), cmdword('STLS')):
      yield ('%s:cmd%08x' % (base, badw), struct.pack('<IIIIII', badw, a0, a1, n, ck, badw ^ 0xffffffff), payload)
    for k in range(24):
      yield ('%s:trunc%d' % (base, k), h[:k], payload)
    if payload:
      yield ('%s:payload-short' % base, h, payload[:-1])
      yield ('%s:payload-long' % base, h, payload + b'z')
      yield ('%s:payload-empty' % base, h, b'')
      yield ('%s:payload-altered' % base, h, bytes([payload[0] ^ 1]) + payload[1:])
      yield ('%s:payload-swapped' % base, h, payload[::-1])


def part_faults():
  am, ue, _ = mods()
  viols, n = [], 0
  outcomes = set()
  samples = []
  for label, header, payload in fault_frames():
    n += 1
    # the device serves the header chunk, then whatever payload it has
    reads = [header] + ([b2s(payload)] if payload is not None else [])
    t = Transport(reads)
    ad = am.AdbTransportAdapter(t)
    ok, exp = ref_decode(header, payload or b'')
    # what the transport would really return for the (possibly corrupted) length
    res = None
    try:
      m = ad.read_message(never())
      res = ('msg', (m.command, m.arg0, m.arg1, s2b(m.data)))
    except (ue.AdbDataIntegrityError, ue.AdbProtocolError) as e:
      res = ('rejected', type(e).__name__)
    except Exception as e:  # pylint: disable=broad-except
      res = ('other', '%s: %s' % (type(e).__name__, e))
    outcomes.add((res[0], res[1] if res[0] == 'rejected' else ''))
    if len(samples) < 3 and 'flip' in label:
      samples.append({'frame': label, 'result': repr(res)})
    # header declares more bytes than the device serves: our fake returns the
    # whole chunk it has (like a short USB read); ref_decode sees the same bytes.
    if ok:
      if res != ('msg', exp):
        viols.append(('faults:valid-frame:%s' % label.split(':')[1].rstrip('0123456789'),
                      'frame %s is valid (%r) but read_message gave %r' % (label, exp, res), {'frame': label}))
    else:
      if res[0] != 'rejected':
        viols.append(('faults:accepted:%s' % label.split(':')[1].rstrip('0123456789+-'),
                      'corrupt frame %s (header %s payload %r) was not rejected: %r'
                      % (label, header.hex(), payload, res), {'frame': label}))
  return n, len(outcomes), viols, samples


class FakeTime(object):
  """Stands in for the time module inside openhtf.util.timeouts."""

  def __init__(self):
    self.now = 1000.0

  def time(self):
    return self.now

  def sleep(self, s):
    self.now += s


def part_deadline():
  """Clock jumps past the deadline at every transport operation."""
  am, ue, timeouts = mods()
  viols, n = [], 0
  outcomes = set()
  real_time = timeouts.time
  samples = []
  try:
    for cmd, payload in [('WRTE', 'abc'), ('OKAY', ''), ('OPEN', 'shell:ls\0')]:
      for jump_at in (0, 1, 2, 3):  # 0 = expired before the call; k = during the k-th transport op
        # ---- write side
        ft = FakeTime()
        timeouts.time = ft
        t = Transport()

        def on_write(k, ft=ft, jump_at=jump_at):
          if k == jump_at:
            ft.now += 100

        t.on_write = on_write
        ad = am.AdbTransportAdapter(t)
        to = timeouts.PolledTimeout.from_millis(50)
        if jump_at == 0:
          ft.now += 100
        exc = None
        try:
          ad.write_message(am.AdbMessage(cmd, 1, 2, payload), to)
        except Exception as e:  # pylint: disable=broad-except
          exc = e
        n += 1
        chunks = [s2b(d) for d, _ in t.writes]
        wire = b''.join(chunks)
        outcomes.add(('w', jump_at, len(chunks), type(exc).__name__))
        full = ref_header(cmd, 1, 2, s2b(payload)) + s2b(payload)
        if len(samples) < 2:
          samples.append({'op': 'write', 'cmd': cmd, 'clock_jumps_during_transport_op': jump_at,
                          'chunks': [len(c) for c in chunks]})
        if chunks and wire != full:
          viols.append(('deadline:write:header-without-payload:jump%d' % jump_at,
                        '%s payload %r, clock passes deadline at op %d: wire has %r (header sent, payload must follow)'
                        % (cmd, payload, jump_at, [len(c) for c in chunks]), {'cmd': cmd, 'jump_at': jump_at}))
        if chunks and len(chunks) >= 2 and t.writes[1][1] is not None and t.writes[1][1] <= 0 and payload:
          viols.append(('deadline:write:zero-timeout-payload:jump%d' % jump_at,
                        'payload written with timeout %r ms after the deadline passed' % (t.writes[1][1],),
                        {'cmd': cmd, 'jump_at': jump_at}))
        # ---- read side: header read succeeds, clock passes the deadline, payload still read
        ft = FakeTime()
        timeouts.time = ft
        full_b = full
        t = Transport([full_b[:24]] + ([payload] if payload else []))

        def on_read(k, ft=ft, jump_at=jump_at):
          if k == jump_at:
            ft.now += 100

        t.on_read = on_read
        ad = am.AdbTransportAdapter(t)
        to = timeouts.PolledTimeout.from_millis(50)
        res = None
        try:
          m = ad.read_message(to)
          res = ('msg', m.command, s2b(m.data))
        except Exception as e:  # pylint: disable=broad-except
          res = ('exc', type(e).__name__)
        n += 1
        outcomes.add(('r', jump_at, res[0]))
        if jump_at in (1, 2, 3) and res != ('msg', cmd, s2b(payload)):
          # header was consumed from the wire; a frame must never be half-read and dropped silently:
          # either the full message is returned or an error is raised.
          if res[0] != 'exc':
            viols.append(('deadline:read:jump%d' % jump_at, 'read gave %r' % (res,), {'cmd': cmd, 'jump_at': jump_at}))
        if res[0] == 'msg' and res != ('msg', cmd, s2b(payload)):
          viols.append(('deadline:read:wrong-message:jump%d' % jump_at, 'read gave %r' % (res,), {'cmd': cmd}))
  finally:
    timeouts.time = real_time
  return n, len(outcomes), viols, samples


def part_histories(tier):
  """Sequences of incoming items on ONE adapter: after a faulty item the next complete valid frame is read back intact.

  Items: V1/V2/V0 valid frames (payload 3 bytes / 5 bytes / none); BADSUM (checksum field corrupted, whole frame arrives);
  TRUNC (header arrives, the payload read times out in the transport and the payload never comes); EMPTY (a read that
  returns nothing, i.e. an empty header)."""
  am, ue, timeouts = mods()
  import libusb1  # pylint: disable=g-import-not-at-top
  frames = {'V1': ('WRTE', 1, 2, 'abc'), 'V2': ('OKAY', 3, 4, 'hello'), 'V0': ('CLSE', 5, 6, '')}
  items = ['V1', 'V2', 'V0', 'BADSUM', 'TRUNC', 'EMPTY']
  TIMEOUT = object()

  class T2(Transport):

    def read(self, n, timeout_ms=None):
      if self.reads and self.reads[0] is TIMEOUT:
        self.reads.pop(0)
        self.read_calls.append((n, timeout_ms))
        raise ue.UsbReadFailedError(libusb1.USBError(libusb1.LIBUSB_ERROR_TIMEOUT))
      return Transport.read(self, n, timeout_ms)

  def chunks_of(item):
    if item in frames:
      cmd, a0, a1, data = frames[item]
      b = s2b(data)
      return [ref_header(cmd, a0, a1, b)] + ([data] if b else [])
    if item == 'BADSUM':
      h = bytearray(ref_header('WRTE', 7, 8, b'xyz'))
      h[16] ^= 0x01
      return [bytes(h), 'xyz']
    if item == 'TRUNC':
      return [ref_header('WRTE', 9, 9, b'lost'), TIMEOUT]
    return ['']

  viols, n, outcomes = [], 0, set()
  depth = 3 if tier == 'quick' else 4
  for d in range(2, depth + 1):
    for hist in itertools.product(items, repeat=d):
      if not any(x in frames for x in hist) or all(x in frames for x in hist):
        continue
      reads = [c for it in hist for c in chunks_of(it)]
      t = T2(reads)
      ad = am.AdbTransportAdapter(t)
      got = []
      for it in hist:
        try:
          m = ad.read_message(timeouts.PolledTimeout.from_millis(1000))
          got.append(('msg', m.command, m.arg0, m.arg1, s2b(m.data)))
        except Exception as e:  # pylint: disable=broad-except
          got.append(('exc', type(e).__name__))
      n += 1
      outcomes.add(tuple(g[0] for g in got))
      for it, g in zip(hist, got):
        if it in frames:
          cmd, a0, a1, data = frames[it]
          if g != ('msg', cmd, a0, a1, s2b(data)):
            viols.append(('histories:valid-frame-after-fault:%s' % '-'.join(hist),
                          'incoming %r on one adapter: the complete valid frame %s was read back as %r (all results %r)'
                          % (list(hist), it, g, got), {'part': 'histories', 'hist': list(hist)}))
            break
        elif g[0] != 'exc':
          viols.append(('histories:fault-delivered:%s' % '-'.join(hist), 'faulty item %s was delivered as %r' % (it, g),
                        {'part': 'histories', 'hist': list(hist)}))
          break
  # read_until() -- the handshake's reader, which skips *valid* frames of other commands -- never skips a malformed frame
  def chunks2(item):
    if item == 'UNKNOWN':
      h = bytearray(ref_header('WRTE', 1, 1, b''))
      h[0:4] = b'STLS'
      h[20:24] = bytes(x ^ 0xFF for x in b'STLS')
      return [bytes(h)]
    if item == 'SHORT':
      return [ref_header('OKAY', 1, 1, b'')[:10]]
    return chunks_of(item)

  items2 = ['V1', 'V2', 'V0', 'BADSUM', 'EMPTY', 'UNKNOWN', 'SHORT']
  for d in range(2, depth + 1):
    for hist in itertools.product(items2, repeat=d):
      if hist[-1] not in frames or all(x in frames for x in hist):
        continue
      want_cmd = frames[hist[-1]][0]
      reads = [c for it in hist for c in chunks2(it)]
      ad = am.AdbTransportAdapter(T2(reads))
      try:
        m = ad.read_until([want_cmd], timeouts.PolledTimeout.from_millis(1000))
        got = ('msg', m.command, m.arg0, m.arg1, s2b(m.data))
      except Exception as e:  # pylint: disable=broad-except
        got = ('exc', type(e).__name__)
      n += 1
      exp = None
      for it in hist:
        if it in frames and frames[it][0] == want_cmd:
          cmd, a0, a1, data = frames[it]
          exp = ('msg', cmd, a0, a1, s2b(data))
          break
        if it not in frames:
          exp = ('exc',)
          break
      outcomes.add(('until', got[0]))
      if got[:len(exp)] != exp:
        viols.append(('histories:read_until:%s' % '-'.join(hist), 'incoming %r, read_until([%s]) gave %r: a malformed frame in front '
                      'of the awaited one must be rejected, not skipped (expected %r)' % (list(hist), want_cmd, got, exp),
                      {'part': 'histories', 'hist': list(hist)}))
  return n, len(outcomes), viols, [{'history': ['V1', 'TRUNC', 'V2'], 'expected': 'msg, error, msg'}]


def part_write_faults():
  """A transfer that fails: the k-th write of a sequence of three messages raises.  Whatever reaches the wire afterwards is
  still a sequence of complete frames (a payload never goes out without its header), and it reads back."""
  am, ue, timeouts = mods()
  import libusb1  # pylint: disable=g-import-not-at-top
  msgs = [('WRTE', 1, 2, 'abc'), ('OKAY', 3, 4, ''), ('WRTE', 5, 6, 'hello'), ('CLSE', 9, 9, '')]
  viols, n, outcomes = [], 0, set()
  for fail_at in range(1, 8):
    n += 1

    class FT(Transport):

      def write(self, data, timeout_ms=None):
        self.calls = getattr(self, 'calls', 0) + 1
        if self.calls == fail_at:
          raise ue.UsbWriteFailedError(libusb1.USBError(libusb1.LIBUSB_ERROR_TIMEOUT))
        self.writes.append((data, timeout_ms))

    t = FT([])
    ad = am.AdbTransportAdapter(t)
    results = []
    for cmd, a0, a1, data in msgs:
      try:
        ad.write_message(am.AdbMessage(cmd, a0, a1, data), never())
        results.append('ok')
      except Exception as e:  # pylint: disable=broad-except
        results.append(type(e).__name__)
    outcomes.add(tuple(results))
    # decode what is on the wire: header chunks of 24 bytes, each followed by exactly its payload (unless that payload
    # write is the one that failed, which ends the frame there)
    chunks = [s2b(c) for c, _ in t.writes]
    i, frames, bad = 0, [], None
    while i < len(chunks):
      hd = chunks[i]
      if len(hd) != 24:
        bad = 'chunk %d (%d bytes: %r) stands where a header must be' % (i, len(hd), hd[:16])
        break
      w, a0, a1, ln, ck, mg = struct.unpack('<6I', hd)
      i += 1
      if ln:
        if i < len(chunks) and len(chunks[i]) == ln and len(chunks[i]) != 24:
          frames.append((WORD_TO_CMD.get(w), a0, a1, b2s(chunks[i])))
          i += 1
        else:
          frames.append((WORD_TO_CMD.get(w), a0, a1, None))       # header without payload: the failed transfer
      else:
        if i < len(chunks) and chunks[i] == b'':
          i += 1              # (the adapter also issues the empty payload transfer of a message without data)
        frames.append((WORD_TO_CMD.get(w), a0, a1, ''))
    if bad:
      viols.append(('writefaults:orphan-payload:%d' % fail_at, 'write #%d failed; on the wire afterwards: %s (results %r)' % (fail_at, bad, results),
                    {'part': 'writefaults', 'fail_at': fail_at}))
      continue
    sent_ok = [m for m, r in zip(msgs, results) if r == 'ok']
    failed_empty = [m for m, r in zip(msgs, results) if r != 'ok' and m[3] == '']
    # (a message without data whose header went out is a complete frame on the wire even if its empty transfer failed)
    complete = [f for f in frames if f[3] is not None and not (f in failed_empty and f not in sent_ok)]
    if complete != sent_ok:
      viols.append(('writefaults:frames:%d' % fail_at, 'write #%d failed; complete frames on the wire %r, messages written without error %r'
                    % (fail_at, complete, sent_ok), {'part': 'writefaults', 'fail_at': fail_at}))
  return n, len(outcomes), viols, [{'messages': msgs, 'failing_write': '1..7'}]


def run(tier):
  rep = common.Report(PID, tier, 'model_checking')
  n, d, viols, samples = part_write_faults()
  rep.merge_violations(viols)
  rep.add_part('write faults', evaluations=n, distinct_nontrivial=d, exhaustive=True, samples=samples)
  items = ['grid'] + list(range(256))
  res = common.pmap(_rt_chunk, items)
  n = sum(r[0] for r in res)
  d = sum(r[1] for r in res)
  for r in res:
    rep.merge_violations(r[2])
  rep.add_part('roundtrip', evaluations=n, distinct_nontrivial=d, exhaustive=True,
               samples=[{'cmd': 'WRTE', 'payload_hex': '00ff', 'wire': (ref_header('WRTE', 1, 2, b'\x00\xff') + b'\x00\xff').hex()}])
  n, d, viols, samples = part_faults()
  rep.merge_violations(viols)
  rep.add_part('faults', evaluations=n, distinct_nontrivial=d, exhaustive=True, samples=samples)
  n, d, viols, samples = part_deadline()
  rep.merge_violations(viols)
  rep.add_part('deadline', evaluations=n, distinct_nontrivial=d, exhaustive=True, samples=samples)
  n, d, viols, samples = part_histories(tier)
  rep.merge_violations(viols)
  rep.add_part('histories on one adapter', evaluations=n, distinct_nontrivial=d, exhaustive=True, samples=samples)
  try:
    from vf.harness import c13_sched  # pylint: disable=g-import-not-at-top
  except ImportError:
    c13_sched = None
  if c13_sched is not None:
    c13_sched.run_into(rep, tier)
  rep.assumptions = [
      'payload space: all byte strings of length <= 2 exhaustively; longer payloads by shape (255/256/4095/4096 bytes)',
      'a bit flip confined to the magic word is not required to be rejected (the statement lists length, checksum, '
      'unknown command, short/empty header); flips that yield another valid frame must be delivered as that frame',
      'ADB payloads are py2-style str (latin-1 code points)',
  ]
  return rep.finish(
      rule='exhaustive payloads (len<=2) x independent struct codec; all 192 single-bit header flips, '
           '+-1 length/checksum, unknown commands, all truncations per frame; clock jump at every transport op')


def replay(art):
  r = art.get('replay') or {}
  if r.get('part') == 'schedules':
    from vf.harness import c13_sched  # pylint: disable=g-import-not-at-top
    return c13_sched.replay(r)
  print(art.get('what'))
  return run('quick')
