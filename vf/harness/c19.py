"""C19 log capture: every run log recorded once, in order, in its own run only.

inputs     logger names x message/argument shapes x MAC address forms, emitted
           while two record handlers are alive (the running test's and a second
           TestState's): exhaustive product on the real logging path.
histories  up to 4 consecutive runs with mixed outcomes: handler count returns
           to its initial value, later logging leaves finished records untouched.
schedules  two tests executing concurrently under the controlled scheduler
           (Engine S): per run own messages exactly once, in emission order,
           none of the other run's record-logger messages.
"""
import itertools
import logging
import threading

from vf import common, htf, progs
from vf.sched import explore, runtime

PID = 'C19'
MACS = [
    ('upper', 'AA:BB:CC:DD:EE:FF', 'AA:BB:CC:<REDACTED>'),
    ('lower', 'f8:8f:ca:01:02:03', 'f8:8f:ca:<REDACTED>'),
    ('embedded', 'addr=12:34:56:78:9a:bc;', 'addr=12:34:56:<REDACTED>;'),
    ('two', '00:11:22:33:44:55 and 66:77:88:99:aa:bb', '00:11:22:<REDACTED> and 66:77:88:<REDACTED>'),
    ('five-octets', '01:02:03:04:05', '01:02:03:04:05'),
    ('none', 'plain text', 'plain text'),
    ('glued', 'dut_f8:8f:ca:01:02:03', 'dut_f8:8f:ca:<REDACTED>'),
    ('hexprefix', 'id0xAA:BB:CC:DD:EE:FF.', 'id0xAA:BB:CC:<REDACTED>.'),
]


class Obj(object):

  def __init__(self, s):
    self.s = s

  def __str__(self):
    return self.s


def shapes(text):
  """(label, msg, args, expected formatted message) for a text fragment."""
  return [
      ('noargs', 'value ' + text, (), 'value ' + text),
      ('%s-str', 'value %s end', (text,), 'value %s end' % text),
      ('%s-obj', 'value %s end', (Obj(text),), 'value %s end' % text),
      ('two-args', '%s then %d', (text, 7), '%s then 7' % text),
      ('dict-args', 'value %(m)s end', ({'m': text},), 'value %s end' % text),
      ('msg-obj', Obj('value ' + text), (), 'value ' + text),
      ('int-arg-mac-msg', text + ' count %d', (3,), text + ' count 3'),
  ]


def logger_kinds(test_api, state, uid, other_uid):
  from openhtf.util import logs  # pylint: disable=g-import-not-at-top
  return [
      ('test.logger', test_api.logger, True),
      ('record-logger', logs.get_record_logger_for(uid), True),
      ('record-child', logs.get_record_logger_for(uid).getChild('helper'), True),
      ('plug-logger', state.plug_manager.logger.getChild('MyPlug'), True),
      ('framework', logging.getLogger('openhtf.core.something'), 'both'),
      ('framework-prefix', logging.getLogger('openhtf.test_record'), 'both'),
      ('other-record', logs.get_record_logger_for(other_uid), 'other'),
      ('other-child', logs.get_record_logger_for(other_uid).getChild('phase.x'), 'other'),
      ('uid-prefix', logs.get_record_logger_for(uid[:-1]), 'none'),
      ('uid-extension', logs.get_record_logger_for(uid + '0'), 'none'),
      ('uid-extension-child', logs.get_record_logger_for(uid + '0').getChild('phase.x'), 'none'),
      ('outside', logging.getLogger('notopenhtf.x'), 'none'),
  ]


def part_inputs(tier):
  L = progs.lib()
  h = L['htf']
  from openhtf.core import test_state  # pylint: disable=g-import-not-at-top
  viols = []
  n = 0
  distinct = set()
  samples = []
  import io  # pylint: disable=g-import-not-at-top
  for mac_label, text, redacted, foreign in [m + (f,) for f in (False, True) for m in MACS]:
    for shape_idx in range(len(shapes('x'))):
      _run_inputs_case(h, test_state, mac_label, text, redacted, foreign, shape_idx, viols, distinct, samples)
      n += 12
  return n, len(distinct), viols, samples


def _run_inputs_case(h, test_state, mac_label, text, redacted, foreign, shape_idx, viols, distinct, samples):
  """One (MAC form, message shape) case over all logger kinds; with foreign=True every logger used also carries a
  formatting handler of the user's own (a debug stream), which sees -- and formats -- each record first."""
  import io  # pylint: disable=g-import-not-at-top
  n = 0
  if True:
    if True:
      emitted = []
      raised = []
      holder = {}

      def body(state):
        test = state.test_api
        uid = state.execution_uid
        other_uid = uid[:-3] + 'zzz'
        other = test_state.TestState(holder['test'].descriptor, other_uid, holder['test']._test_options)  # pylint: disable=protected-access
        holder['other'] = other
        try:
          for kind, lg, dest in logger_kinds(test, state, uid, other_uid):
            label, msg, args, expect = shapes(text)[shape_idx]
            exp_red = shapes(redacted)[shape_idx][3]
            emitted.append((kind, lg.name, dest, exp_red))
            fh = None
            if foreign:
              fh = logging.StreamHandler(io.StringIO())
              fh.setFormatter(logging.Formatter('%(name)s %(message)s'))
              lg.addHandler(fh)
            try:
              lg.warning(msg, *args)
            except Exception as e:  # pylint: disable=broad-except
              raised.append((kind, label, type(e).__name__, str(e)[:80]))
            finally:
              if fh is not None:
                lg.removeHandler(fh)
        finally:
          holder['other_records'] = list(other.test_record.log_records)
          other.close()

      body.__name__ = 'logphase'
      ph = h.PhaseOptions(name='logphase', requires_state=True)(body)
      res, recs, test, terr = None, None, None, None
      test = h.Test(ph)
      holder['test'] = test
      cap = htf.Capture()
      test.add_output_callbacks(cap)
      test.execute()
      rec = cap.records[0]
      label = shapes(text)[shape_idx][0]
      for kind, lab, etype, emsg in raised:
        viols.append(('inputs:logging-raised:%s:%s' % (lab, mac_label),
                      'logging call through %s with shape %s and text %r raised %s: %s' % (kind, lab, text, etype, emsg),
                      {'part': 'inputs', 'case': {'logger': kind, 'shape': lab, 'mac': mac_label}}))
      for kind, name, dest, exp in emitted:
        n += 1
        mine = [r for r in rec.log_records if r.logger_name == name and r.level == logging.WARNING]
        theirs = [r for r in holder['other_records'] if r.logger_name == name and r.level == logging.WARNING]
        distinct.add((kind, label, mac_label))
        want_mine = dest in (True, 'both')
        want_theirs = dest in ('other', 'both')
        case = {'logger': kind, 'shape': label, 'mac': mac_label, 'foreign_handler': foreign}
        if len(samples) < 3 and mac_label == 'embedded':
          samples.append(dict(case, recorded=[r.message for r in mine]))
        for who, got, want in (('own run', mine, want_mine), ('other run', theirs, want_theirs)):
          if want and len(got) != 1:
            viols.append(('inputs:%s:%s:%s:%s' % ('lost' if not got else 'duplicated', kind, label, mac_label),
                          'logger %s (%s), shape %s, text %r: %d copies in the %s, expected 1 (own run messages %r)'
                          % (kind, name, label, text, len(got), who, [r.message for r in mine]), {'part': 'inputs', 'case': case}))
          elif not want and got:
            viols.append(('inputs:leaked:%s:%s' % (kind, who.replace(' ', '-')),
                          'logger %s (%s) is not a logger of the %s but its message was recorded there' % (kind, name, who),
                          {'part': 'inputs', 'case': case}))
          elif want and got:
            r = got[0]
            if r.message != exp:
              k = 'unredacted' if mac_label not in ('none', 'five-octets') and ('<REDACTED>' not in r.message or r.message.count('<REDACTED>') != exp.count('<REDACTED>')) else 'message'
              viols.append(('inputs:%s:%s:%s' % (k, label, mac_label),
                            'logger %s shape %s: recorded %r, expected %r' % (kind, label, r.message, exp), {'part': 'inputs', 'case': case}))
            if r.source != 'c19.py' or not isinstance(r.lineno, int) or r.lineno <= 0 or not isinstance(r.timestamp_millis, int):
              viols.append(('inputs:metadata:%s' % kind, 'record metadata source=%r lineno=%r ts=%r' % (r.source, r.lineno, r.timestamp_millis),
                            {'part': 'inputs', 'case': case}))


def part_levels(tier):
  """Every level x every CLI verbosity: what is printed is the CLI handler's business, what is *recorded* is everything.
  Also: records are appended in emission order even if the wall clock steps backwards between two messages."""
  L = progs.lib()
  h = L['htf']
  from openhtf.util import logs  # pylint: disable=g-import-not-at-top
  viols, n = [], 0
  cli_printed = []
  htf_logger = logging.getLogger('openhtf')
  levels = [logging.DEBUG, 15, logging.INFO, logging.WARNING, logging.ERROR]
  for verbosity in (0, 1, 2):
    for clock in ('normal', 'steps-back'):
      saved = (logs.CLI_LOGGING_VERBOSITY, list(htf_logger.handlers), htf_logger.level, logging.time)
      shim = None
      from openhtf.util import console_output  # pylint: disable=g-import-not-at-top
      import io, sys  # pylint: disable=g-import-not-at-top,multiple-imports
      saved_cli = (console_output.CLI_QUIET, sys.stdout)
      try:
        logs.CLI_LOGGING_VERBOSITY = verbosity
        # the CLI handler really prints (into a buffer): the harnesses otherwise run with console output silenced
        console_output.CLI_QUIET = False
        sys.stdout = io.StringIO()
        # (configure_logging is decorated call_once: a process configures logging once; here each case is "a process")
        getattr(logs.configure_logging, '__wrapped__', logs.configure_logging)()
        if clock == 'steps-back':
          import types  # pylint: disable=g-import-not-at-top
          import time as real_time  # pylint: disable=g-import-not-at-top
          state = {'off': 0.0}
          shim = types.SimpleNamespace(**{k: getattr(real_time, k) for k in dir(real_time) if not k.startswith('_')})
          shim.time = lambda: real_time.time() + state['off']
          if hasattr(real_time, 'time_ns'):
            shim.time_ns = lambda: int((real_time.time() + state['off']) * 1e9)
          logging.time = shim

        names = {'fw': 'openhtf.core.levels'}

        def body(test):
          fw = logging.getLogger('openhtf.core.levels')
          names['own'] = test.logger.name
          for i, lv in enumerate(levels):
            if shim is not None:
              state['off'] = [0.0, -2.0, 2.0, -4.0, 1.0][i]     # an NTP correction between two log lines
            test.logger.log(lv, 'own-%d', lv)
            fw.log(lv, 'fw-%d', lv)

        body.__name__ = 'levels'
        test = h.Test(h.PhaseOptions(name='levels')(body))
        cap = htf.Capture()
        test.add_output_callbacks(cap)
        test.execute()
        rec = cap.records[0]
        got = [(r.level, r.message) for r in rec.log_records if r.message.startswith(('own-', 'fw-'))]
        want = [x for lv in levels for x in ((lv, 'own-%d' % lv), (lv, 'fw-%d' % lv))]
        n += 1
        case = {'verbosity': verbosity, 'clock': clock}
        # ... and each record carries the name of the logger it was logged through, whatever the CLI handler printed
        for r in rec.log_records:
          wantname = names.get(r.message.split('-')[0]) if r.message.startswith(('own-', 'fw-')) else None
          if wantname is not None and r.logger_name != wantname:
            viols.append(('levels:logger-name:verbosity=%d' % verbosity, 'CLI verbosity %d: message %r logged through %r is recorded '
                          'with logger name %r' % (verbosity, r.message, wantname, r.logger_name), {'part': 'levels', 'case': case}))
            break
        if sorted(got) != sorted(want):
          missing = [w for w in want if w not in got]
          viols.append(('levels:lost-or-extra:verbosity=%d' % verbosity,
                        'CLI verbosity %d, clock %s: recorded %r; missing %r' % (verbosity, clock, got, missing),
                        {'part': 'levels', 'case': case}))
        elif clock == 'steps-back' and got == want:
          # each record keeps the millisecond timestamp of the moment it was logged -- also when the wall clock went back
          own = [r.timestamp_millis for r in rec.log_records if r.message.startswith('own-')]
          offs = [0.0, -2.0, 2.0, -4.0, 1.0]
          drift = [abs((own[i] - own[0]) - 1000 * (offs[i] - offs[0])) for i in range(len(own))]
          if len(own) == len(offs) and max(drift) > 500:
            viols.append(('levels:timestamp', 'CLI verbosity %d: messages logged at wall-clock offsets %r s are recorded with timestamps %r '
                          '(relative ms: %r)' % (verbosity, offs, own, [t - own[0] for t in own]), {'part': 'levels', 'case': case}))
        if sorted(got) == sorted(want) and got != want:
          viols.append(('levels:order:%s' % clock, 'CLI verbosity %d, clock %s: records are not in emission order: %r'
                        % (verbosity, clock, [m for _, m in got]), {'part': 'levels', 'case': case}))
      finally:
        printed = sys.stdout.getvalue() if isinstance(sys.stdout, io.StringIO) else ''
        console_output.CLI_QUIET, sys.stdout = saved_cli
        if verbosity == 2 and clock == 'normal':
          cli_printed.append('own-10' in printed)       # (vacuity guard, reported in the evidence sample)
        logs.CLI_LOGGING_VERBOSITY = saved[0]
        htf_logger.handlers[:] = saved[1]
        htf_logger.setLevel(saved[2])
        logging.time = saved[3]
  return n, n, viols, [{'levels': levels, 'verbosities': [0, 1, 2], 'clocks': ['normal', 'steps-back'],
                        'cli_handler_printed_at_verbosity_2': cli_printed}]


def part_callshapes(tier):
  """Every spelling of a logging call on every kind of record logger: level, logger name, source file and line of the
  *calling* statement are recorded."""
  import inspect  # pylint: disable=g-import-not-at-top
  import warnings  # pylint: disable=g-import-not-at-top
  L = progs.lib()
  h = L['htf']
  viols, n = [], 0
  expected = []

  def body(state):
    test = state.test_api
    uid = state.execution_uid
    for kind, lg, dest in logger_kinds(test, state, uid, uid[:-3] + 'zzz'):
      if dest is not True:
        continue
      for meth, level in (('debug', logging.DEBUG), ('info', logging.INFO), ('warning', logging.WARNING), ('warn', logging.WARNING),
                          ('error', logging.ERROR), ('critical', logging.CRITICAL), ('exception', logging.ERROR), ('log', logging.WARNING)):
        fn = getattr(lg, meth, None)
        if fn is None:
          continue      # (spelling not offered by this interpreter's logging module)
        msg = 'shape-%s-%s' % (kind, meth)
        with warnings.catch_warnings():
          warnings.simplefilter('ignore')
          if meth == 'log':
            line = inspect.currentframe().f_lineno + 1
            fn(logging.WARNING, msg)
          elif meth == 'exception':
            try:
              raise ValueError('x')
            except ValueError:
              line = inspect.currentframe().f_lineno + 1
              fn(msg)
          else:
            line = inspect.currentframe().f_lineno + 1
            fn(msg)
        expected.append((msg, level, lg.name, line, kind, meth))

  body.__name__ = 'shapes'
  test = h.Test(h.PhaseOptions(name='shapes', requires_state=True)(body))
  cap = htf.Capture()
  test.add_output_callbacks(cap)
  test.execute()
  rec = cap.records[0]
  for msg, level, name, line, kind, meth in expected:
    n += 1
    got = [r for r in rec.log_records if r.message == msg or r.message.startswith(msg + '\n')]
    case = {'logger': kind, 'method': meth}
    if len(got) != 1:
      viols.append(('callshapes:count:%s' % meth, '%s.%s(): %d records' % (kind, meth, len(got)), {'part': 'callshapes', 'case': case}))
      continue
    r = got[0]
    if (r.level, r.logger_name, r.source, r.lineno) != (level, name, 'c19.py', line):
      viols.append(('callshapes:metadata:%s' % meth, '%s.%s() at c19.py:%d: recorded level=%r logger=%r source=%r line=%r (expected %r %r)'
                    % (kind, meth, line, r.level, r.logger_name, r.source, r.lineno, level, name), {'part': 'callshapes', 'case': case}))
  return n, n, viols, [{'methods': 'debug info warning warn error critical exception log', 'loggers': 'the four record-logger kinds'}]


def part_trigger_and_afterlife(tier):
  """Messages logged while the start trigger runs belong to the run; logger objects kept from a finished run neither alter
  its record nor reach a later run."""
  L = progs.lib()
  h = L['htf']
  from openhtf.util import logs  # pylint: disable=g-import-not-at-top
  viols, n = [], 0
  for ts_mode in ('ok', 'stop'):
    kept = []

    def ts(state):
      test = state.test_api
      uid = state.execution_uid
      test.logger.info('T-own')
      logging.getLogger('openhtf.core.trigger').info('T-fw')
      logs.get_record_logger_for(uid).getChild('helper').info('T-rec')
      kept.extend([test.logger, logs.get_record_logger_for(uid).getChild('helper')])
      test.dut_id = 'dut'
      return h.PhaseResult.STOP if ts_mode == 'stop' else None

    def main(test):
      test.logger.info('M-own')
      kept.append(test.logger)

    ts.__name__ = 'ts'
    test = h.Test(h.PhaseOptions(name='main')(main))
    cap = htf.Capture()
    test.add_output_callbacks(cap)
    test.execute(test_start=h.PhaseOptions(name='ts', requires_state=True)(ts))
    rec1 = cap.records[0]
    n += 1
    case = {'trigger': ts_mode}
    want = ['T-own', 'T-fw', 'T-rec'] + (['M-own'] if ts_mode == 'ok' else [])
    got = [r.message for r in rec1.log_records if r.message in ('T-own', 'T-fw', 'T-rec', 'M-own')]
    if sorted(got) != sorted(want):
      viols.append(('trigger:lost-or-extra:%s' % ts_mode, 'run whose start trigger %s: recorded %r of the messages %r logged during the run'
                    % ('returns STOP' if ts_mode == 'stop' else 'passes', got, want), {'part': 'trigger', 'case': case}))
    # afterlife: the run is over; its logger objects are used again, then the same Test runs once more
    size1 = len(rec1.log_records)
    rendered1 = len(rec1.as_base_types()['log_records'])
    for lg in kept:
      lg.warning('LATE')
    del cap.records[:]
    kept_before = len(kept)
    test.execute(test_start=h.PhaseOptions(name='ts', requires_state=True)(ts))
    rec2 = cap.records[0]
    n += 1
    if len(rec1.log_records) != size1 or len(rec1.as_base_types()['log_records']) != rendered1:
      viols.append(('afterlife:finished-record-grew:%s' % ts_mode, 'the record of the finished run grew from %d to %d log records when its '
                    'logger objects were used after the run' % (size1, len(rec1.log_records)), {'part': 'trigger', 'case': case}))
    if any(r.message == 'LATE' for r in rec2.log_records):
      viols.append(('afterlife:leaked-into-next-run:%s' % ts_mode, 'messages logged through a finished run\'s loggers appear in the next run',
                    {'part': 'trigger', 'case': case}))
  return n, n, viols, [{'trigger': ['passes', 'returns STOP'], 'afterlife': 'kept logger objects used after the run, then a second run'}]


def part_histories(tier):
  L = progs.lib()
  h = L['htf']
  viols = []
  n = 0
  seen = set()
  # ... and runs whose *output* step faults: an output callback raising KeyboardInterrupt / SystemExit (they escape the
  # per-callback "except Exception"), an unwritable profile file
  modes = ['ok', 'fail', 'raise', 'hang', 'cb_kbi', 'cb_exit', 'bad_profile']
  depth = 3 if tier == 'quick' else 4
  htf_logger = logging.getLogger('openhtf')
  for hist in itertools.product(modes, repeat=depth):
    n += 1
    seen.add(hist)
    base = len(htf_logger.handlers)
    finished = []
    loggers = []
    for i, mode in enumerate(hist):
      def body(test, mode=mode):
        test.logger.info('run message %s', mode)
        loggers.append(test.logger)
        if mode == 'fail':
          return h.PhaseResult.FAIL_AND_CONTINUE
        if mode == 'raise':
          raise progs.PhaseBoom('x')
        if mode == 'hang':
          progs.CLOCK.hanging.add(threading.current_thread())
          import time  # pylint: disable=g-import-not-at-top
          while True:
            time.sleep(0.0005)
        return None
      body.__name__ = 'p'
      if mode in ('cb_kbi', 'cb_exit', 'bad_profile'):
        test = h.Test(h.PhaseOptions(name='p')(body))
        cap = htf.Capture()

        def faulty(rec, mode=mode):
          if mode == 'cb_kbi':
            raise KeyboardInterrupt()
          if mode == 'cb_exit':
            raise SystemExit(4)

        test.add_output_callbacks(cap, faulty)
        try:
          test.execute(profile_filename='/nonexistent-dir-c19/profile.out' if mode == 'bad_profile' else None)
        except BaseException:  # pylint: disable=broad-except
          pass
        h.Test.HANDLED_SIGINT_ONCE = False
        recs = cap.records
        if not recs:
          # (the profile fault strikes before the callbacks: take the record from the executor's state)
          continue
      else:
        res, recs, test, terr = htf.run_test([h.PhaseOptions(name='p')(body)])
      finished.append((recs[0], len(recs[0].log_records)))
      # logging through the finished run's loggers and the framework logger must not touch finished records
      for lg in loggers:
        lg.warning('late message')
      logging.getLogger('openhtf.late').warning('late framework message')
      for rec, cnt in finished:
        if len(rec.log_records) != cnt:
          viols.append(('histories:finished-record-changed', 'history %r: a finished record grew from %d to %d log records'
                        % (hist, cnt, len(rec.log_records)), {'part': 'histories', 'hist': list(hist)}))
      if len(htf_logger.handlers) != base + (i + 1) * 0 + (len(htf_logger.handlers) - base if False else 0) and False:
        pass
    rh = [x for x in htf_logger.handlers if type(x).__name__ == 'RecordHandler']
    if rh:
      viols.append(('histories:handler-leak', 'history %r: %d RecordHandler(s) remain on the openhtf logger' % (hist, len(rh)),
                    {'part': 'histories', 'hist': list(hist)}))
      for x in rh:
        htf_logger.removeHandler(x)
  return n, len(seen), viols, [{'history': list(h_)} for h_ in list(seen)[:2]]


# ---- schedules ---------------------------------------------------------------------------------------
def scenario_two_runs(size=2, staggered=False):
  htf.init()
  import openhtf as h  # pylint: disable=g-import-not-at-top

  def fn(sched):
    results = {}

    def mk(tag):
      def p1(test):
        test.logger.info('%s-1', tag)
        logging.getLogger('openhtf.fw').info('fw-%s', tag)
        test.logger.info('%s-2', tag)

      def p2(test):
        test.logger.warning('%s-3', tag)

      p1.__name__ = 'p1' + tag
      p2.__name__ = 'p2' + tag
      t = h.Test(p1, p2) if size == 2 else h.Test(p1)
      cap = htf.Capture()
      t.add_output_callbacks(cap)

      def run():
        t.execute()
        rec = cap.records[0]
        results[tag] = [(r.logger_name.split('.')[-1] if 'phase' in r.logger_name else r.logger_name, r.message)
                        for r in rec.log_records if r.message.startswith(('A-', 'B-', 'fw-'))]
      return run

    runs = {tag: mk(tag) for tag in ('A', 'B')}
    gate = threading.Event()

    def late_b():
      gate.wait()          # opened by the explorer at any moment of run A ("a second station test starts now")
      runs['B']()

    ths = [threading.Thread(target=runs['A'], name='runA'),
           threading.Thread(target=late_b if staggered else runs['B'], name='runB')]
    for t in ths:
      t.start()
    if staggered:
      sched.add_gate(gate, 'runB', cost=0, flt=GATE_FLT[0])
      ths[0].join()
      gate.set()           # if the explorer never opened the gate, run B simply follows run A
    for t in ths:
      t.join()
    return results

  return fn


SIZE = [2]
STAGGER = [False]
GATE_FLT = [None]


def _closing_filter(sched, me):
  """Run B may start while run A is inside TestState.close() / remove_record_handler(), or in the middle of
  dispatching a log record to its handler (quick tier)."""
  if me is None:
    return False
  if me.label.startswith(('L:remove_record_handler', 'L:close', 'rlock', 'lock')):
    return True
  return me.label == _emit_entry_label()


_EMIT = {}


def _emit_entry_label():
  """Label of the first executable line of RecordHandler.emit (text anchor: its `try:` line)."""
  if 'l' not in _EMIT:
    import inspect  # pylint: disable=g-import-not-at-top
    from openhtf.util import logs  # pylint: disable=g-import-not-at-top
    src, start = inspect.getsourcelines(logs.RecordHandler.emit)
    off = next((i for i, line in enumerate(src) if line.strip() == 'try:'), 1)
    _EMIT['l'] = 'L:emit:%d' % (start + off)
  return _EMIT['l']


def execute_s(choices):
  htf.init()
  from openhtf.util import logs  # pylint: disable=g-import-not-at-top
  from openhtf.core import test_state  # pylint: disable=g-import-not-at-top
  sched, value = explore.run_under_scheduler(
      scenario_two_runs(SIZE[0], STAGGER[0]), choices,
      focus_targets=[logs.initialize_record_handler, logs.remove_record_handler, logs.RecordHandler.emit, logs.TestUidFilter.filter,
                     test_state.TestState.close],
      focus_files=('openhtf/util/logs.py',), max_steps=60000)
  result = {'value': value if isinstance(value, dict) else repr(value), 'failure': repr(sched.failure) if sched.failure else None}
  result['outcome_key'] = repr(value)[:600]
  return explore.Exec(list(choices), sched.points, result, sched.failure, sched.steps, len(sched.trace), sched.state_hashes)


def check_s(ex):
  rep = {'part': 'schedules', 'choices': ex.choices, 'size': SIZE[0], 'staggered': STAGGER[0]}
  out = []
  v = ex.result['value']
  if ex.failure is not None or not isinstance(v, dict):
    out.append(('schedules:failure', 'two concurrent runs did not finish: %s / %s' % (ex.failure, v), rep))
    return out
  for tag, other in (('A', 'B'), ('B', 'A')):
    msgs = v.get(tag)
    if msgs is None:
      out.append(('schedules:no-record', 'run %s produced no record' % tag, rep))
      continue
    own = [m for _, m in msgs if m.startswith(tag + '-')]
    if own != ['%s-1' % tag, '%s-2' % tag, '%s-3' % tag][:SIZE[0] + 1]:
      out.append(('schedules:own-messages', 'run %s recorded its own messages as %r (expected each once, in order)' % (tag, own), rep))
    leaked = [m for _, m in msgs if m.startswith(other + '-')]
    if leaked:
      out.append(('schedules:foreign-messages', 'run %s recorded messages of run %s: %r' % (tag, other, leaked), rep))
    fw_own = [m for _, m in msgs if m == 'fw-' + tag]
    if len(fw_own) != 1:
      out.append(('schedules:framework-message', 'run %s recorded its framework message %d times' % (tag, len(fw_own)), rep))
  left = [x for x in logging.getLogger('openhtf').handlers if type(x).__name__ == 'RecordHandler']
  if left:
    out.append(('schedules:handler-leak', '%d RecordHandler(s) left after both runs' % len(left), rep))
    for x in left:
      logging.getLogger('openhtf').removeHandler(x)
  return out


def _inputs_worker(tier):
  return part_inputs(tier)


def _hist_worker(tier):
  return part_histories(tier)


def _levels_worker(tier):
  return part_levels(tier)


def _callshapes_worker(tier):
  return part_callshapes(tier)


def _trigger_worker(tier):
  return part_trigger_and_afterlife(tier)


def run(tier):
  rep = common.Report(PID, tier, 'model_checking')
  progs.lib()
  (n1, d1, v1, s1), (n2, d2, v2, s2), (n3, d3, v3, s3), (n4, d4, v4, s4), (n5, d5, v5, s5) = common.pmap(
      lambda f: f(tier), [_inputs_worker, _hist_worker, _levels_worker, _callshapes_worker, _trigger_worker], chunksize=1)
  rep.merge_violations(v5)
  rep.add_part('start trigger and afterlife of logger objects', evaluations=n5, distinct_nontrivial=d5, states=n5, transitions=n5,
               traces_validated_against_impl=n5, exhaustive=True, samples=s5 or [{}])
  rep.merge_violations(v4)
  rep.add_part('call shapes x record-logger kinds', evaluations=n4, distinct_nontrivial=d4, states=n4, transitions=n4,
               traces_validated_against_impl=n4, exhaustive=True, samples=s4 or [{}])
  rep.merge_violations(v3)
  rep.add_part('levels x verbosity x clock', evaluations=n3, distinct_nontrivial=d3, states=n3, transitions=n3,
               traces_validated_against_impl=n3, exhaustive=True, samples=s3 or [{}])
  rep.merge_violations(v1)
  rep.add_part('inputs', evaluations=n1, distinct_nontrivial=d1, states=n1, transitions=n1, traces_validated_against_impl=n1,
               exhaustive=True, samples=s1 or [{}])
  rep.merge_violations(v2)
  rep.add_part('histories', evaluations=n2, distinct_nontrivial=d2, states=n2, transitions=n2, traces_validated_against_impl=n2,
               exhaustive=True, samples=s2 or [{}])
  # (size, bound, forced switches free?)
  # (phases per test, bound, forced switches free?, run B started by an external gate?)
  GATE_FLT[0] = _closing_filter if tier == 'quick' else None
  plans = [(2, 1, False, False), (1, 1, False, True)] if tier == 'quick' else \
      [(2, 2, False, False), (1, 1, True, False), (2, 1, True, False), (2, 1, False, True)]
  explore.set_plan(common.thorough_budget(tier), len(plans))
  for size, bound, free, stag in plans:
    SIZE[0] = size
    STAGGER[0] = stag
    r = explore.explore('C19:S%d%s%s' % (size, free, stag), execute_s, check_s, bound, cap=40000 if tier == 'quick' else 600000,
                        free_forced=free)
    rep.merge_violations(r['violations'])
    rep.add_part('schedules two %s runs (%d phases each, %s)' % ('staggered' if stag else 'concurrent', size, 'preemption-bounded' if free else 'deviation-bounded'),
                 states=max(1, r['states']), transitions=r['steps'], traces_validated_against_impl=r['executions'],
                 deviation_bound=bound, distinct_outcomes=len(r['outcomes']), exhaustive=not r['capped'],
                 decision_points_default=r['default_points'], samples=r['samples'] or [{'choices': []}])
  rep.assumptions = [
      'inputs: 10 logger kinds x 7 message/argument shapes x 6 MAC forms, with a second TestState (hence a second record handler) alive',
      'histories: all sequences of 3 (4 in thorough) consecutive runs over {pass, fail, exception, timeout}',
      'schedules: two Test.execute() calls in two threads; scheduling points: every line of initialize/remove_record_handler, '
      'RecordHandler.emit, TestUidFilter.filter, TestState.close and every lock operation created in logs.py',
  ]
  return rep.finish(rule='exhaustive product for inputs/histories; stateless schedule exploration for the concurrent runs')


def replay(art):
  r = art['replay']
  if r.get('part') == 'schedules':
    SIZE[0] = r.get('size', 2)
    STAGGER[0] = r.get('staggered', False)
    ex = execute_s(r['choices'])
    print(ex.result['value'])
    bad = check_s(ex)
    for b in bad:
      print('VIOLATED', b[0], b[1])
    return 1 if bad else 0
  part = {'inputs': part_inputs, 'levels': part_levels, 'callshapes': part_callshapes,
          'trigger': part_trigger_and_afterlife}.get(r.get('part'), part_histories)
  n, d, viols, _ = part('quick')
  hit = [v for v in viols if v[0] == art['signature']]
  for v in hit[:3]:
    print('VIOLATED', v[0], v[1])
  return 1 if hit else 0
