"""C20 configuration: explicit-state BFS over real _Configuration objects.

State = history of operations; every expansion rebuilds a fresh real
`_Configuration()` and replays the history (no live-object copying).  States
are de-duplicated on the implementation's complete state -- the three
dictionaries `_declarations/_loaded_values/_flag_values`; the class has
`__slots__` and no other value-carrying state, so merged states have equal
futures -- paired with the reference model's state.
After every transition every read API is compared with vf/ref/conf.py.
"""
import argparse
import io
import json
import os
import sys

import yaml

from vf import common
from vf.ref import conf as ref

PID = 'C20'
KEYS_READ = ['a', 'b', 'u', 'zz']


class BodyRaised(Exception):
  pass


def _cfgmod():
  from openhtf.util import configuration  # pylint: disable=g-import-not-at-top
  return configuration


def new_conf(init_flags):
  cfg = _cfgmod()
  old = sys.argv
  sys.argv = ['prog'] + ['--config-value=%s=%s' % (k, json.dumps(v))
                         for k, v in init_flags]
  try:
    c = cfg._Configuration()  # pylint: disable=protected-access
  finally:
    sys.argv = old
  return c


def _errkind(e):
  cfg = _cfgmod()
  table = [(cfg.KeyAlreadyDeclaredError, 'redeclare'),
           (cfg.UndeclaredKeyError, 'undeclared'),
           (cfg.UnsetKeyError, 'unset'),
           (cfg.ConfigurationInvalidError, 'invalidfile'),
           (cfg.DefaultNotDefinedError, 'nodefault'),
           (BodyRaised, 'bodyraised')]
  for cls, kind in table:
    if isinstance(e, cls):
      return kind
  return 'other:%s' % type(e).__name__


def apply_impl(c, holders, op):
  kind = op[0]
  if kind == 'declare':
    if op[2] == ref.NOTSET:
      holders.setdefault(op[1], c.declare(op[1], 'descr'))
    else:
      holders.setdefault(op[1], c.declare(op[1], default_value=op[2]))
  elif kind == 'load':
    d = dict(op[1])
    if len(d) == 1 and op[4] == 'kw':
      c.load(_override=op[2], _allow_undeclared=op[3], **d)
    else:
      c.load_from_dict(d, _override=op[2], _allow_undeclared=op[3])
  elif kind == 'load_file':
    if op[1][0] == 'ok':
      d = dict(op[1][1])
      text = json.dumps(d) if op[4] == 'json' else yaml.safe_dump(d)
    elif op[1][0] == 'badyaml':
      text = 'a: [1, 2\nb: }{'
    else:
      text = '- a\n- b\n'
    c.load_from_file(io.StringIO(text), _override=op[2],
                     _allow_undeclared=op[3])
  elif kind == 'flags':
    ns = argparse.Namespace(
        config_value=['%s=%s' % (k, json.dumps(v)) for k, v in op[1]])
    c.load_flag_values(ns)
  elif kind == 'reset':
    c.reset()
  elif kind == 'setattr':
    try:
      setattr(c, op[1], 1)
    except AttributeError:
      raise ref.RefErr('noattrset')
  elif kind == 'peek':
    # code running inside a save_and_restore-wrapped function looks at the configuration through every view
    for k, hd in list(holders.items()):
      _try(lambda hd=hd: hd.value)
      _try(lambda k=k: c[k])
      _try(lambda k=k: getattr(c, k))
    _try(c._asdict)  # pylint: disable=protected-access
  elif kind == 'snap':
    # an observation from inside a wrapped function (e.g. after a nested wrapped call has returned)
    IMPL_SNAPS.append({k: (type(v).__name__, repr(v)) for k, v in c._asdict().items()})  # pylint: disable=protected-access
  elif kind == 'sar':

    def body():
      for b in op[2]:
        apply_impl(c, holders, b)
      if op[3]:
        raise BodyRaised()
      return 'ret'

    wrapped = c.save_and_restore(body, **dict(op[1])) if not op[1] else \
        c.save_and_restore(**dict(op[1]))(body)
    r = wrapped()
    assert r == 'ret'
  else:
    raise AssertionError(op)


IMPL_SNAPS = []


def impl_state(c):
  cfg = _cfgmod()
  decl = tuple(sorted(
      (k, repr(d.default_value) if d.has_default else ref.NOTSET)
      for k, d in c._declarations.items()))  # pylint: disable=protected-access
  return (decl,
          tuple(sorted((k, repr(v)) for k, v in c._loaded_values.items())),  # pylint: disable=protected-access
          tuple(sorted((k, repr(v)) for k, v in c._flag_values.items())))  # pylint: disable=protected-access


def _try(fn):
  try:
    v = fn()
    return ('val', type(v).__name__, repr(v))
  except ref.RefErr as e:
    return ('err', e.kind)
  except Exception as e:  # pylint: disable=broad-except
    return ('err', _errkind(e))


def observe(c, holders, m):
  """Returns list of mismatch descriptions between impl reads and model."""
  bad = []
  for k in KEYS_READ:
    exp_get = _try(lambda: m.get(k))
    got = {
        'item': _try(lambda: c[k]),
        'attr': _try(lambda: getattr(c, k)),
    }
    if k in holders:
      got['holder.value'] = _try(lambda: holders[k].value)
    for api, g in got.items():
      if g != exp_get:
        bad.append('%s(%r): impl %r model %r' % (api, k, g, exp_get))
    gc = _try(lambda: k in c)
    ec = _try(lambda: m.contains(k))
    if gc != ec:
      bad.append('contains(%r): impl %r model %r' % (k, gc, ec))
    if k in holders:
      gd = _try(lambda: holders[k].default)
      ed = _try(lambda: m.default(k))
      if gd != ed:
        bad.append('holder.default(%r): impl %r model %r' % (k, gd, ed))
  snap = c._asdict()  # pylint: disable=protected-access
  got_decl = {k: (type(v).__name__, repr(v)) for k, v in snap.items()
              if k in m.decl}
  exp_decl = {k: (type(v).__name__, repr(v))
              for k, v in m.asdict_declared().items()}
  if got_decl != exp_decl:
    bad.append('_asdict declared part: impl %r model %r' % (got_decl, exp_decl))
  for k in snap:
    if k not in m.decl and k not in m.loaded:
      bad.append('_asdict exposes undeclared, never-allowed key %r' % k)
  for k, val in m.loaded.items():
    if k not in m.decl and (k not in snap or (type(snap[k]).__name__, repr(snap[k])) != (type(val).__name__, repr(val))):
      bad.append('_asdict lacks the explicitly allowed undeclared key %r=%r (snapshot has %r)' % (k, val, snap.get(k, '<absent>')))
  return bad


def run_history(init_flags, hist):
  """Replays hist on fresh impl + model. Returns (viols, key) of final state."""
  c = new_conf(init_flags)
  m = ref.RefConf(dict(init_flags))
  holders = {}
  viols = []
  for i, op in enumerate(hist):
    del IMPL_SNAPS[:]
    del m.snaps[:]
    r_impl = _try(lambda: apply_impl(c, holders, op))
    r_ref = _try(lambda: m.apply(op))
    for got, (decl, exp) in zip(list(IMPL_SNAPS), list(m.snaps)):
      got_decl = {k: v for k, v in got.items() if k in decl}
      if got_decl != exp:
        viols.append(('mid-body-read', 'op %r: inside the wrapped function _asdict() showed %r, model %r' % (op, got_decl, exp)))
    if len(IMPL_SNAPS) != len(m.snaps):
      viols.append(('mid-body-read', 'op %r: %d observations inside the wrapped function, model %d' % (op, len(IMPL_SNAPS), len(m.snaps))))
    last = i == len(hist) - 1
    if r_impl[0] != r_ref[0] or (r_impl[0] == 'err' and r_impl != r_ref):
      if last:
        viols.append(('op-result', 'op %r: impl %r model %r' % (op, r_impl, r_ref)))
  for b in observe(c, holders, m):
    viols.append(('read', b))
  return viols, (impl_state(c), m.state())


def _expand(item):
  init_flags, hist, ops = item
  out = []
  for op in ops:
    h = hist + [op]
    viols, key = run_history(init_flags, h)
    out.append((op, viols, key))
  return out


def alphabet(tier):
  N = ref.NOTSET
  T, F = True, False
  ops = [
      ['declare', 'a', 1], ['declare', 'a', N], ['declare', 'b', N],
      ['declare', 'b', None],
      ['load', [['a', 2]], T, F, 'kw'],
      ['load', [['a', 's']], F, F, 'kw'],
      ['load', [['b', [1]]], T, F, 'dict'],
      ['load', [['u', 3]], T, F, 'dict'],
      ['load', [['u', 3]], T, T, 'dict'],          # an undeclared key, explicitly allowed: loaded (and kept by save_and_restore)
      ['load', [['a', 2.0]], T, F, 'kw'],          # equal to 2 but a different value: a later load still overrides
      ['load', [['u', 3], ['a', None]], T, T, 'dict'],
      ['load', [['a', 2], ['b', 2]], F, F, 'dict'],
      ['load_file', ['ok', [['a', 7]]], T, F, 'yaml'],
      ['load_file', ['ok', [['b', 'j'], ['u', 1]]], F, F, 'json'],
      ['load_file', ['badyaml'], T, F, 'yaml'],
      ['load_file', ['notdict'], T, F, 'yaml'],
      ['flags', [['a', 5]]], ['flags', [['u', 6]]], ['flags', [['b', None]]],
      ['reset'],
      ['setattr', 'a'], ['setattr', 'u'],
      ['sar', [], [['load', [['a', 9]], T, F, 'kw']], F],
      ['sar', [['a', 8]], [], F],
      ['sar', [], [['load', [['a', 9]], T, F, 'kw']], T],
      ['sar', [['b', 8]], [['reset']], F],
      ['sar', [], [['load', [['a', 9]], T, F, 'kw'], ['peek']], F],
      ['sar', [['a', 8]], [['peek']], T],
      ['sar', [], [['declare', 'b', 0], ['load', [['b', 4]], T, F, 'kw']], T],
      # a wrapped function calling another wrapped function, then looking at the configuration again
      ['sar', [['a', 8]], [['sar', [['a', 1]], [['load', [['b', 4]], T, F, 'kw']], F], ['snap']], F],
      ['sar', [], [['snap'], ['sar', [['b', 6]], [['snap']], F], ['snap'], ['load', [['a', 3]], T, F, 'kw'], ['snap']], F],
  ]
  if tier == 'thorough':
    ops += [
        ['declare', 'a', 0], ['declare', 'b', 'd'],
        ['load', [['a', 0]], T, F, 'kw'],
        ['load', [['b', 's']], F, T, 'dict'],
        ['load', [['zz', 1]], T, T, 'dict'],
        ['load_file', ['ok', [['a', [1]]]], T, T, 'json'],
        ['load_file', ['ok', [['u', 2]]], T, T, 'yaml'],
        ['flags', [['a', 0]]], ['flags', [['a', 5], ['b', 's']]],
        ['sar', [['u', 1]], [['load', [['u', 2]], T, T, 'dict']], F],
        ['sar', [], [['sar', [['a', 1]], [['reset']], T]], F],
        ['sar', [['a', 8], ['b', 8]], [['load_file', ['badyaml'], T, F, 'yaml']], F],
    ]
  return ops


def bfs(init_flags, ops, max_depth, rep):
  viols0, key0 = run_history(init_flags, [])
  for kind, b in viols0:
    rep.violation('init:%s:%s' % (kind, b), b, {'init_flags': init_flags, 'ops': []})
  seen = {key0}
  frontier = [[]]
  transitions = 0
  depth = 0
  samples = []
  while frontier and depth < max_depth:
    depth += 1
    items = [(init_flags, h, common.rotate(ops)) for h in frontier]
    results = common.pmap(_expand, items)
    nxt = []
    for h, res in zip(frontier, results):
      for op, viols, key in res:
        transitions += 1
        for kind, b in viols:
          sig = '%s:%s:%s' % (kind, json.dumps(op), b.split(':')[0])
          rep.violation(sig, 'after %s: %s' % (json.dumps(h + [op]), b),
                        {'init_flags': init_flags, 'ops': h + [op]})
        if key not in seen:
          seen.add(key)
          nxt.append(h + [op])
          if len(samples) < 4 and len(h) >= 2:
            samples.append(h + [op])
    frontier = nxt
  return {'states': len(seen), 'transitions': transitions,
          'depth_completed': depth, 'fixpoint': not frontier,
          'samples': samples}


# ---- "... and the _asdict() snapshot stored in test metadata always agree" -------------------------------------------
MD_OPS = [('load', 'st-1'), ('load', 'st-2'), ('load_noover', 'st-3'), ('reset', None), ('sar', 'st-4')]


def metadata_sequences(tier):
  import itertools  # pylint: disable=g-import-not-at-top
  depth = 3 if tier == 'quick' else 4
  for d in range(1, depth + 1):
    for seq in itertools.product(MD_OPS, repeat=d):
      yield list(seq)


def run_metadata_sequence(seq):
  """One Test object executed after every configuration operation of seq (a station loop that is reconfigured between
  DUTs); the record of each run must carry the configuration as it is *for that run*."""
  from vf import htf, progs  # pylint: disable=g-import-not-at-top
  L = progs.lib()
  h, conf = L['htf'], L['conf']

  def body(test):
    pass

  body.__name__ = 'mdphase'
  test = h.Test(h.PhaseOptions(name='mdphase')(body))
  cap = htf.Capture()
  test.add_output_callbacks(cap)
  bad = []
  try:
    for k, (op, val) in enumerate(seq):
      def run_once():
        want = dict(conf._asdict())  # pylint: disable=protected-access
        del cap.records[:]
        test.execute()
        got = cap.records[0].metadata.get('config')
        if got != want:
          diff = sorted(key for key in set(got or {}) | set(want) if (got or {}).get(key) != want.get(key))
          bad.append(('metadata-snapshot', 'run %d (after %s %r): metadata config differs from the configuration of that run '
                      'in %r: snapshot %r, configuration %r' % (k, op, val, diff, {x: (got or {}).get(x) for x in diff},
                                                                 {x: want.get(x) for x in diff})))
      if op == 'load':
        conf.load(station_id=val)
        run_once()
      elif op == 'load_noover':
        conf.load(station_id=val, _override=False)
        run_once()
      elif op == 'reset':
        conf.reset()
        run_once()
      else:
        conf.save_and_restore(run_once, station_id=val)()
  finally:
    conf.reset()
  return bad


def _md_work(item):
  tier, start, step = item
  n, viols = 0, []
  for i, seq in enumerate(metadata_sequences(tier)):
    if i % step != start:
      continue
    n += 1
    for kind, what in run_metadata_sequence(seq):
      sig = '%s:%s' % (kind, '>'.join('%s(%s)' % (o, v) for o, v in seq))
      viols.append((sig, what, {'md_seq': [list(x) for x in seq]}))
  return n, viols


def run(tier):
  rep = common.Report(PID, tier, 'model_checking')
  mres = common.pmap(_md_work, [(tier, s, 8) for s in range(8)], chunksize=1)
  for r in mres:
    rep.merge_violations(r[1])
  nm = sum(r[0] for r in mres)
  rep.add_part('metadata snapshot of repeated runs', states=nm, transitions=nm, traces_validated_against_impl=nm, exhaustive=True,
               samples=[{'ops': [list(x) for x in MD_OPS], 'sequences up to length': 3 if tier == 'quick' else 4}])
  ops = alphabet(tier)
  inits = [[], [['a', 5], ['u', 6]]]
  if tier == 'thorough':
    inits.append([['b', None]])
  max_depth = 4 if tier == 'quick' else 64
  if tier == 'quick':
    max_depth = 64  # the quick alphabet reaches its fixpoint in seconds
  for init in inits:
    r = bfs(init, ops, max_depth, rep)
    rep.add_part('bfs init_flags=%s' % json.dumps(init),
                 states=r['states'], transitions=r['transitions'],
                 traces_validated_against_impl=r['transitions'],
                 depth_completed=r['depth_completed'],
                 exhaustive=r['fixpoint'], samples=r['samples'])
  rep.assumptions = [
      '_Configuration state is exactly its three dicts (class uses __slots__)',
      'key universe {a,b,u,zz}; value universe as listed in alphabet()',
      'flag values enter through --config-value (argv at construction) and load_flag_values',
  ]
  return rep.finish(
      alphabet_size=len(ops),
      rule='explicit-state BFS to fixpoint; every transition executed on a '
           'fresh real _Configuration by replaying its history; every read '
           'API compared with the reference model after every transition')


def replay(art):
  if 'md_seq' in art.get('replay', {}):
    bad = run_metadata_sequence([tuple(x) for x in art['replay']['md_seq']])
    for b in bad:
      print('VIOLATED', b)
    return 1 if bad else 0
  r = art['replay']
  viols, _ = run_history(r['init_flags'], r['ops'])
  for v in viols:
    print('MISMATCH', v)
  print('replayed %d ops; %d mismatches' % (len(r['ops']), len(viols)))
  return 1 if viols else 0
