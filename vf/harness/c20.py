"""C20 configuration: explicit-state BFS over real _Configuration objects.

State = history of operations; every expansion rebuilds a fresh real
`_Configuration()` and replays the history (no live-object copying).  States
are de-duplicated on the implementation's complete state -- the three
dictionaries `_declarations/_loaded_values/_flag_values`; the class has
`__slots__` and no other value-carrying state, so merged states have equal
futures -- paired with the reference model's state.
After every transition every read API is compared with vf/ref/conf.py.
"""
import argparse
import io
import json
import os
import sys

import yaml

from vf import common
from vf.ref import conf as ref

PID = 'C20'
KEYS_READ = ['a', 'b', 'u', 'zz']


class BodyRaised(Exception):
  pass


def _cfgmod():
  from openhtf.util import configuration  # pylint: disable=g-import-not-at-top
  return configuration


def new_conf(init_flags):
  cfg = _cfgmod()
  old = sys.argv
  sys.argv = ['prog'] + ['--config-value=%s=%s' % (k, json.dumps(v))
                         for k, v in init_flags]
  try:
    c = cfg._Configuration()  # pylint: disable=protected-access
  finally:
    sys.argv = old
  return c


def _errkind(e):
  cfg = _cfgmod()
  table = [(cfg.KeyAlreadyDeclaredError, 'redeclare'),
           (cfg.UndeclaredKeyError, 'undeclared'),
           (cfg.UnsetKeyError, 'unset'),
           (cfg.ConfigurationInvalidError, 'invalidfile'),
           (cfg.DefaultNotDefinedError, 'nodefault'),
           (BodyRaised, 'bodyraised')]
  for cls, kind in table:
    if isinstance(e, cls):
      return kind
  return 'other:%s' % type(e).__name__


def apply_impl(c, holders, op):
  kind = op[0]
  if kind == 'declare':
    if op[2] == ref.NOTSET:
      holders.setdefault(op[1], c.declare(op[1], 'descr'))
    else:
      holders.setdefault(op[1], c.declare(op[1], default_value=op[2]))
  elif kind == 'load':
    d = dict(op[1])
    if len(d) == 1 and op[4] == 'kw':
      c.load(_override=op[2], _allow_undeclared=op[3], **d)
    else:
      c.load_from_dict(d, _override=op[2], _allow_undeclared=op[3])
  elif kind == 'load_file':
    if op[1][0] == 'ok':
      d = dict(op[1][1])
      text = json.dumps(d) if op[4] == 'json' else yaml.safe_dump(d)
    elif op[1][0] == 'badyaml':
      text = 'a: [1, 2\nb: }{'
    else:
      text = '- a\n- b\n'
    c.load_from_file(io.StringIO(text), _override=op[2],
                     _allow_undeclared=op[3])
  elif kind == 'flags':
    ns = argparse.Namespace(
        config_value=['%s=%s' % (k, json.dumps(v)) for k, v in op[1]])
    c.load_flag_values(ns)
  elif kind == 'reset':
    c.reset()
  elif kind == 'setattr':
    try:
      setattr(c, op[1], 1)
    except AttributeError:
      raise ref.RefErr('noattrset')
  elif kind == 'peek':
    # code running inside a save_and_restore-wrapped function looks at the configuration through every view
    for k, hd in list(holders.items()):
      _try(lambda hd=hd: hd.value)
      _try(lambda k=k: c[k])
      _try(lambda k=k: getattr(c, k))
    _try(c._asdict)  # pylint: disable=protected-access
  elif kind == 'sar':

    def body():
      for b in op[2]:
        apply_impl(c, holders, b)
      if op[3]:
        raise BodyRaised()
      return 'ret'

    wrapped = c.save_and_restore(body, **dict(op[1])) if not op[1] else \
        c.save_and_restore(**dict(op[1]))(body)
    r = wrapped()
    assert r == 'ret'
  else:
    raise AssertionError(op)


def impl_state(c):
  cfg = _cfgmod()
  decl = tuple(sorted(
      (k, repr(d.default_value) if d.has_default else ref.NOTSET)
      for k, d in c._declarations.items()))  # pylint: disable=protected-access
  return (decl,
          tuple(sorted((k, repr(v)) for k, v in c._loaded_values.items())),  # pylint: disable=protected-access
          tuple(sorted((k, repr(v)) for k, v in c._flag_values.items())))  # pylint: disable=protected-access


def _try(fn):
  try:
    v = fn()
    return ('val', type(v).__name__, repr(v))
  except ref.RefErr as e:
    return ('err', e.kind)
  except Exception as e:  # pylint: disable=broad-except
    return ('err', _errkind(e))


def observe(c, holders, m):
  """Returns list of mismatch descriptions between impl reads and model."""
  bad = []
  for k in KEYS_READ:
    exp_get = _try(lambda: m.get(k))
    got = {
        'item': _try(lambda: c[k]),
        'attr': _try(lambda: getattr(c, k)),
    }
    if k in holders:
      got['holder.value'] = _try(lambda: holders[k].value)
    for api, g in got.items():
      if g != exp_get:
        bad.append('%s(%r): impl %r model %r' % (api, k, g, exp_get))
    gc = _try(lambda: k in c)
    ec = _try(lambda: m.contains(k))
    if gc != ec:
      bad.append('contains(%r): impl %r model %r' % (k, gc, ec))
    if k in holders:
      gd = _try(lambda: holders[k].default)
      ed = _try(lambda: m.default(k))
      if gd != ed:
        bad.append('holder.default(%r): impl %r model %r' % (k, gd, ed))
  snap = c._asdict()  # pylint: disable=protected-access
  got_decl = {k: (type(v).__name__, repr(v)) for k, v in snap.items()
              if k in m.decl}
  exp_decl = {k: (type(v).__name__, repr(v))
              for k, v in m.asdict_declared().items()}
  if got_decl != exp_decl:
    bad.append('_asdict declared part: impl %r model %r' % (got_decl, exp_decl))
  for k in snap:
    if k not in m.decl and k not in m.loaded:
      bad.append('_asdict exposes undeclared, never-allowed key %r' % k)
  return bad


def run_history(init_flags, hist):
  """Replays hist on fresh impl + model. Returns (viols, key) of final state."""
  c = new_conf(init_flags)
  m = ref.RefConf(dict(init_flags))
  holders = {}
  viols = []
  for i, op in enumerate(hist):
    r_impl = _try(lambda: apply_impl(c, holders, op))
    r_ref = _try(lambda: m.apply(op))
    last = i == len(hist) - 1
    if r_impl[0] != r_ref[0] or (r_impl[0] == 'err' and r_impl != r_ref):
      if last:
        viols.append(('op-result', 'op %r: impl %r model %r' % (op, r_impl, r_ref)))
  for b in observe(c, holders, m):
    viols.append(('read', b))
  return viols, (impl_state(c), m.state())


def _expand(item):
  init_flags, hist, ops = item
  out = []
  for op in ops:
    h = hist + [op]
    viols, key = run_history(init_flags, h)
    out.append((op, viols, key))
  return out


def alphabet(tier):
  N = ref.NOTSET
  T, F = True, False
  ops = [
      ['declare', 'a', 1], ['declare', 'a', N], ['declare', 'b', N],
      ['declare', 'b', None],
      ['load', [['a', 2]], T, F, 'kw'],
      ['load', [['a', 's']], F, F, 'kw'],
      ['load', [['b', [1]]], T, F, 'dict'],
      ['load', [['u', 3]], T, F, 'dict'],
      ['load', [['u', 3], ['a', None]], T, T, 'dict'],
      ['load', [['a', 2], ['b', 2]], F, F, 'dict'],
      ['load_file', ['ok', [['a', 7]]], T, F, 'yaml'],
      ['load_file', ['ok', [['b', 'j'], ['u', 1]]], F, F, 'json'],
      ['load_file', ['badyaml'], T, F, 'yaml'],
      ['load_file', ['notdict'], T, F, 'yaml'],
      ['flags', [['a', 5]]], ['flags', [['u', 6]]], ['flags', [['b', None]]],
      ['reset'],
      ['setattr', 'a'], ['setattr', 'u'],
      ['sar', [], [['load', [['a', 9]], T, F, 'kw']], F],
      ['sar', [['a', 8]], [], F],
      ['sar', [], [['load', [['a', 9]], T, F, 'kw']], T],
      ['sar', [['b', 8]], [['reset']], F],
      ['sar', [], [['load', [['a', 9]], T, F, 'kw'], ['peek']], F],
      ['sar', [['a', 8]], [['peek']], T],
      ['sar', [], [['declare', 'b', 0], ['load', [['b', 4]], T, F, 'kw']], T],
  ]
  if tier == 'thorough':
    ops += [
        ['declare', 'a', 0], ['declare', 'b', 'd'],
        ['load', [['a', 0]], T, F, 'kw'],
        ['load', [['b', 's']], F, T, 'dict'],
        ['load', [['zz', 1]], T, T, 'dict'],
        ['load_file', ['ok', [['a', [1]]]], T, T, 'json'],
        ['load_file', ['ok', [['u', 2]]], T, T, 'yaml'],
        ['flags', [['a', 0]]], ['flags', [['a', 5], ['b', 's']]],
        ['sar', [['u', 1]], [['load', [['u', 2]], T, T, 'dict']], F],
        ['sar', [], [['sar', [['a', 1]], [['reset']], T]], F],
        ['sar', [['a', 8], ['b', 8]], [['load_file', ['badyaml'], T, F, 'yaml']], F],
    ]
  return ops


def bfs(init_flags, ops, max_depth, rep):
  viols0, key0 = run_history(init_flags, [])
  for kind, b in viols0:
    rep.violation('init:%s:%s' % (kind, b), b, {'init_flags': init_flags, 'ops': []})
  seen = {key0}
  frontier = [[]]
  transitions = 0
  depth = 0
  samples = []
  while frontier and depth < max_depth:
    depth += 1
    items = [(init_flags, h, common.rotate(ops)) for h in frontier]
    results = common.pmap(_expand, items)
    nxt = []
    for h, res in zip(frontier, results):
      for op, viols, key in res:
        transitions += 1
        for kind, b in viols:
          sig = '%s:%s:%s' % (kind, json.dumps(op), b.split(':')[0])
          rep.violation(sig, 'after %s: %s' % (json.dumps(h + [op]), b),
                        {'init_flags': init_flags, 'ops': h + [op]})
        if key not in seen:
          seen.add(key)
          nxt.append(h + [op])
          if len(samples) < 4 and len(h) >= 2:
            samples.append(h + [op])
    frontier = nxt
  return {'states': len(seen), 'transitions': transitions,
          'depth_completed': depth, 'fixpoint': not frontier,
          'samples': samples}


def run(tier):
  rep = common.Report(PID, tier, 'model_checking')
  ops = alphabet(tier)
  inits = [[], [['a', 5], ['u', 6]]]
  if tier == 'thorough':
    inits.append([['b', None]])
  max_depth = 4 if tier == 'quick' else 64
  if tier == 'quick':
    max_depth = 64  # the quick alphabet reaches its fixpoint in seconds
  for init in inits:
    r = bfs(init, ops, max_depth, rep)
    rep.add_part('bfs init_flags=%s' % json.dumps(init),
                 states=r['states'], transitions=r['transitions'],
                 traces_validated_against_impl=r['transitions'],
                 depth_completed=r['depth_completed'],
                 exhaustive=r['fixpoint'], samples=r['samples'])
  rep.assumptions = [
      '_Configuration state is exactly its three dicts (class uses __slots__)',
      'key universe {a,b,u,zz}; value universe as listed in alphabet()',
      'flag values enter through --config-value (argv at construction) and load_flag_values',
  ]
  return rep.finish(
      alphabet_size=len(ops),
      rule='explicit-state BFS to fixpoint; every transition executed on a '
           'fresh real _Configuration by replaying its history; every read '
           'API compared with the reference model after every transition')


def replay(art):
  r = art['replay']
  viols, _ = run_history(r['init_flags'], r['ops'])
  for v in viols:
    print('MISMATCH', v)
  print('replayed %d ops; %d mismatches' % (len(r['ops']), len(viols)))
  return 1 if viols else 0
