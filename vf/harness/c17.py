"""C17 atomic file output: crash-point and fault enumeration on the real callbacks.

Engine F.  The callback under test runs in a private directory (staging dir on
the same file system as the destination, as the statement assumes).
  crash points  a LINE event of sys.monitoring in the output modules, shutil
                and tempfile is a possible kill point: at every one of them the
                kernel-visible content of the destination is read (user-space
                buffers are *not* flushed, exactly what survives kill -9) and
                must be absent / the previous complete record / the complete
                new serialization.
  fault points  the run is repeated with an OSError raised at the i-th LINE
                event of the openhtf output modules, for every i (thinned only
                inside long per-chunk loops: first 3 / middle / last 3
                occurrences of a line), with serializers that raise after k
                chunks for every k, with NaN under allow_nan=False, and with a
                temp-file proxy whose k-th write (partial) / flush / close
                fails.
"""
import errno
import json
import math
import os
import pickle
import shutil
import tempfile

from vf import common, htf, linehook

PID = 'C17'


class Injected(OSError):
  pass


class SerializerBoom(Exception):
  pass


def mods():
  htf.init()
  from openhtf.output import callbacks  # pylint: disable=g-import-not-at-top
  from openhtf.output.callbacks import json_factory  # pylint: disable=g-import-not-at-top
  from openhtf.util import atomic_write  # pylint: disable=g-import-not-at-top
  return callbacks, json_factory, atomic_write


_RECORDS = {}


def make_record(kind):
  """Real TestRecord objects produced by real runs."""
  if kind in _RECORDS:
    return _RECORDS[kind]
  import openhtf as h  # pylint: disable=g-import-not-at-top
  n_meas = 1 if kind in ('small', 'nan') else 12

  def body(test):
    for i in range(n_meas):
      test.measurements['m%d' % i] = float('nan') if (kind == 'nan' and i == 0) else i + 0.5
    test.attach('blob', b'\x00\xff\x10binary', 'application/octet-stream')
    test.logger.info('hello %s', 'world')
    test.dut_id = 'DUT-7'

  ph = h.PhaseOptions(name='p')(body)
  for i in range(n_meas):
    ph = h.measures(h.Measurement('m%d' % i))(ph)
  res, recs, _, _ = htf.run_test([ph], metadata={'test_name': 'c17name'})
  assert recs, res
  _RECORDS[kind] = recs[0]
  return recs[0]


# ---- scenarios ---------------------------------------------------------------
PATTERNS = {
    'brace': '{dut_id}.{metadata[test_name]}.json',
    'percent': '%(dut_id)s.%(start_time_millis)s.rec',
    'callable': lambda dut_id, **kw: dut_id + '.cb',
}


def expected_name(pat, rec):
  if pat == 'brace':
    return '%s.%s.json' % (rec.dut_id, rec.metadata['test_name'])
  if pat == 'percent':
    return '%s.%s.rec' % (rec.dut_id, rec.start_time_millis)
  return rec.dut_id + '.cb'


def pattern_in(outdir, pat):
  p = PATTERNS[pat]
  if callable(p):
    return lambda **kw: os.path.join(outdir, p(**kw))
  return os.path.join(outdir, p)


def build(scn, outdir):
  """Returns (callable running the output path, expected bytes or None if it must fail, dest path)."""
  cb, jf, aw = mods()
  kind = scn['kind']
  rec = make_record(scn.get('record', 'small'))
  pat = scn.get('pattern', 'brace')
  dest = os.path.join(outdir, expected_name(pat, rec))
  if kind == 'json':
    o = jf.OutputToJSON(pattern_in(outdir, pat), **scn.get('json_kwargs', {}))
    try:
      exp = ''.join(o.serialize_test_record(rec)).encode()
    except ValueError:
      exp = None  # NaN with allow_nan=False: serialization itself fails
    return (lambda: o(rec)), exp, dest
  if kind == 'pickle':
    o = cb.OutputToFile(pattern_in(outdir, pat))
    return (lambda: o(rec)), pickle.dumps(rec, -1), dest
  if kind == 'custom':
    chunks = scn['chunks']
    fail_after = scn.get('fail_after')
    mode = scn.get('mode', 'iter_text')

    class Custom(cb.OutputToFile):

      @staticmethod
      def serialize_test_record(test_rec):
        if mode == 'str':
          if fail_after is not None:
            raise SerializerBoom('serializer failed')
          return ''.join(chunks)

        def gen():
          for i, c in enumerate(chunks):
            if fail_after is not None and i == fail_after:
              raise SerializerBoom('serializer failed after %d chunks' % i)
            yield c.encode() if mode == 'iter_bytes' else c
          if fail_after is not None and fail_after >= len(chunks):
            raise SerializerBoom('serializer failed at the end')

        return gen()

    o = Custom(pattern_in(outdir, pat))
    exp = None if fail_after is not None else ''.join(chunks).encode()
    return (lambda: o(rec)), exp, dest
  if kind == 'atomic_write':
    parts = scn['chunks']
    fail_after = scn.get('fail_after')
    dest = os.path.join(outdir, 'aw.txt')

    def run_aw():
      with aw.atomic_write(dest, filesync=scn.get('filesync', False)) as f:
        for i, p in enumerate(parts):
          if fail_after is not None and i == fail_after:
            raise SerializerBoom('body failed after %d writes' % i)
          f.write(p)
        if fail_after is not None and fail_after >= len(parts):
          raise SerializerBoom('body failed at the end')
        if scn.get('same_stat') and os.path.exists(dest):
          # the staged file ends up with the size AND the modification time of the file it replaces (two writes within one
          # timestamp tick of a coarse file system, or times set by a sync tool): it is still new content
          f.flush()
          st = os.stat(dest)
          os.utime(f.name, ns=(st.st_atime_ns, st.st_mtime_ns))

    exp = None if fail_after is not None else ''.join(parts).encode()
    return run_aw, exp, dest
  raise AssertionError(kind)


class FileProxy(object):
  """Wraps a real file object; programmable failures (ENOSPC style)."""

  def __init__(self, real, plan, counter):
    self._real = real
    self._plan = plan
    self._counter = counter

  def __getattr__(self, name):
    return getattr(self._real, name)

  def __enter__(self):
    self._real.__enter__()
    return self

  def __exit__(self, *a):
    # `with open(...)` closes through __exit__: route through our close().
    self.close()
    return False

  def write(self, data):
    self._counter['write'] += 1
    if self._plan.get('op') == 'write' and self._plan['k'] == self._counter['write']:
      part = data[:len(data) // 2]
      import io  # pylint: disable=g-import-not-at-top
      if isinstance(getattr(self._real, 'file', self._real), io.FileIO):
        # an *unbuffered* file hands the request to write(2) as it is: when only part of it fits, the call stores that
        # part and returns the short count -- no exception; only the next call would fail
        if part:
          self._real.write(part)
        self._plan = {'op': 'write', 'k': self._counter['write'] + 1}
        return len(part)
      if part:
        self._real.write(part)
        self._real.flush()
      raise Injected(errno.ENOSPC, 'injected: write #%d failed after a partial write' % self._counter['write'])
    return self._real.write(data)

  def flush(self):
    self._counter['flush'] += 1
    if self._plan.get('op') == 'flush' and self._plan['k'] == self._counter['flush']:
      raise Injected(errno.EIO, 'injected: flush failed')
    return self._real.flush()

  def close(self):
    self._counter['close'] += 1
    if self._plan.get('op') == 'close' and self._plan['k'] == self._counter['close']:
      if self._plan.get('after'):
        self._real.close()
      raise Injected(errno.ENOSPC, 'injected: close failed')
    return self._real.close()


def copy_kernel_view(src, dst):
  """Copies a directory tree as a killed process would leave it (no flushing)."""
  for dirpath, _, files in os.walk(src):
    rel = os.path.relpath(dirpath, src)
    os.makedirs(os.path.join(dst, rel), exist_ok=True)
    for f in files:
      with open(os.path.join(dirpath, f), 'rb') as fi, open(os.path.join(dst, rel, f), 'wb') as fo:
        fo.write(fi.read())


def run_scenario(scn, prev, fault, root=None, copy_at=None, copy_to=None):
  """One execution.  Returns dict(viols=[...], line_events=[(file,line)...], snapshots=n, outcome=...)."""
  cb, jf, aw = mods()
  given_root = root is not None
  if root is None:
    root = tempfile.mkdtemp(prefix='vf_c17_')
  stage = os.path.join(root, 'stage')
  outdir = os.path.join(root, 'out')
  os.makedirs(stage, exist_ok=True)
  os.makedirs(outdir, exist_ok=True)
  old_tmpdir = tempfile.tempdir
  tempfile.tempdir = stage
  real_ntf = tempfile.NamedTemporaryFile
  had_open = 'open' in vars(aw)
  viols = []
  events = []
  state = {'snap': 0, 'last_stat': None, 'htf_idx': 0, 'all_idx': 0, 'distinct': set()}
  try:
    runner, exp, dest = build(scn, outdir)
    prev_bytes = None
    if given_root:
      if os.path.exists(dest):
        with open(dest, 'rb') as f:
          prev_bytes = f.read()
    elif prev is not None:
      prev_bytes = prev
      with open(dest, 'wb') as f:
        f.write(prev_bytes)
    allowed = [prev_bytes] if prev_bytes is not None else [None]
    if exp is not None:
      allowed.append(exp)

    def read_dest():
      try:
        st = os.stat(dest)
      except FileNotFoundError:
        return None, None
      key = (st.st_ino, st.st_size, st.st_mtime_ns)
      with open(dest, 'rb') as f:
        return key, f.read()

    def check(where):
      state['snap'] += 1
      key, content = read_dest()
      state['distinct'].add(key)
      if content not in allowed:
        desc = ('absent' if content is None else '%d bytes (%r...)' % (len(content), content[:30]))
        viols.append((where, 'destination holds %s; allowed: %s' % (
            desc, ' / '.join('absent' if a is None else 'complete %d bytes' % len(a) for a in allowed))))

    htf_files = tuple(m.__file__ for m in (cb, jf, aw))

    def on_line(code, lineno):
      if copy_at is not None and state['all_idx'] == copy_at:
        copy_kernel_view(root, copy_to)
      state['all_idx'] += 1
      if code.co_filename in htf_files:
        idx = state['htf_idx']
        state['htf_idx'] += 1
        events.append((os.path.basename(code.co_filename), lineno))
        if fault and fault.get('op') == 'line' and fault['i'] == idx:
          check('before-fault@%s:%d' % (os.path.basename(code.co_filename), lineno))
          raise Injected(errno.EIO, 'injected fault at %s:%d' % (os.path.basename(code.co_filename), lineno))
      check('kill@%s:%d' % (os.path.basename(code.co_filename), lineno))
      return None

    counter = {'write': 0, 'flush': 0, 'close': 0}
    if fault and fault.get('op') in ('write', 'flush', 'close'):
      def ntf(*a, **kw):
        return FileProxy(real_ntf(*a, **kw), fault if fault.get('target', 'ntf') == 'ntf' else {}, counter)
      tempfile.NamedTemporaryFile = ntf
      import builtins  # pylint: disable=g-import-not-at-top
      aw.open = lambda *a, **kw: FileProxy(builtins.open(*a, **kw), fault if fault.get('target') == 'open' else {}, counter)
    linehook.install([cb, jf, aw, shutil.move, shutil.copyfile, shutil.copy2, tempfile.NamedTemporaryFile,
                      tempfile._TemporaryFileWrapper], on_line)  # pylint: disable=protected-access
    exc = None
    try:
      runner()
    except BaseException as e:  # pylint: disable=broad-except
      exc = e
    finally:
      linehook.uninstall()
    check('final')
    _, final = read_dest()
    if exc is None:
      if exp is None:
        viols.append(('final', 'callback returned normally although serialization must fail'))
      elif final != exp:
        viols.append(('final-success', 'callback succeeded but destination is %s, expected the %d-byte serialization'
                      % ('absent' if final is None else '%d bytes' % len(final), len(exp))))
      names = sorted(os.listdir(outdir))
      if exp is not None and names != [os.path.basename(dest)]:
        viols.append(('final-name', 'output dir holds %r, expected exactly [%r]' % (names, os.path.basename(dest))))
    outcome = ('ok' if exc is None else type(exc).__name__, 'absent' if final is None else
               ('prev' if final == prev_bytes else ('new' if final == exp else 'other')))
    return {'viols': viols, 'events': events, 'snapshots': state['snap'], 'outcome': outcome,
            'distinct_states': len(state['distinct']), 'all_events': state['all_idx']}
  finally:
    tempfile.tempdir = old_tmpdir
    tempfile.NamedTemporaryFile = real_ntf
    if not had_open and 'open' in vars(aw):
      del aw.open
    if not given_root:
      shutil.rmtree(root, ignore_errors=True)


def thin(events):
  """Indices of LINE events to inject at: every event, thinned inside long loops."""
  occ = {}
  for i, e in enumerate(events):
    occ.setdefault(e, []).append(i)
  keep = set()
  for e, idxs in occ.items():
    if len(idxs) <= 8:
      keep.update(idxs)
    else:
      keep.update(idxs[:3] + idxs[-3:] + [idxs[len(idxs) // 2], idxs[len(idxs) // 3]])
  return sorted(keep)


def scenarios(tier):
  out = []
  chunks = ['{"a": ', '[1, 2, 3]', ', "b": "', 'x' * 50000, '"}']
  for pat in ('brace', 'percent', 'callable'):
    out.append({'kind': 'json', 'pattern': pat, 'record': 'small'})
  out.append({'kind': 'json', 'pattern': 'brace', 'record': 'small', 'json_kwargs': {'indent': 2}})
  out.append({'kind': 'json', 'pattern': 'brace', 'record': 'nan'})
  out.append({'kind': 'json', 'pattern': 'brace', 'record': 'nan', 'json_kwargs': {'allow_nan': True}})
  out.append({'kind': 'pickle', 'pattern': 'percent', 'record': 'small'})
  for mode in ('iter_text', 'iter_bytes', 'str'):
    out.append({'kind': 'custom', 'chunks': chunks, 'mode': mode, 'pattern': 'brace'})
    ks = range(len(chunks) + 1) if mode != 'str' else [0]
    for k in ks:
      out.append({'kind': 'custom', 'chunks': chunks, 'mode': mode, 'fail_after': k, 'pattern': 'brace'})
  # a serializer that yields nothing at all: the (empty) record still replaces whatever the destination held
  for mode in ('iter_text', 'iter_bytes'):
    out.append({'kind': 'custom', 'chunks': [], 'mode': mode, 'pattern': 'brace'})
  out.append({'kind': 'custom', 'chunks': [''], 'mode': 'str', 'pattern': 'brace'})
  out.append({'kind': 'custom', 'chunks': ['[' + 'x' * 30000, 'y' * 30000, 'z' * 9000 + ']'], 'mode': 'iter_text',
              'pattern': 'brace', 'history': True})
  out.append({'kind': 'custom', 'chunks': ['[' + 'x' * 30000, 'y' * 30000, 'z' * 9000 + ']'], 'mode': 'iter_bytes',
              'pattern': 'percent', 'history': True})
  # chunk shapes: small-only (everything still in the user-space buffer at the end),
  # big-then-small (tail buffered), small-then-big (all flushed by the last write)
  for fs in (False, True):
    for parts in (['line1\n', 'line2\n'], ['z' * 70000, 'tail\n'], ['line1\n', 'line2\n', 'z' * 70000]):
      out.append({'kind': 'atomic_write', 'chunks': parts, 'filesync': fs})
      for k in range(len(parts) + 1):
        out.append({'kind': 'atomic_write', 'chunks': parts, 'filesync': fs, 'fail_after': k})
  for fs in (False, True):
    out.append({'kind': 'atomic_write', 'chunks': ['N' * 1240], 'filesync': fs, 'same_stat': True})     # (1240 = size of the previous content)
  if tier == 'thorough':
    out.append({'kind': 'json', 'pattern': 'brace', 'record': 'large'})
    out.append({'kind': 'pickle', 'pattern': 'brace', 'record': 'large'})
    big = ['c%d,' % i for i in range(40)] + ['y' * 200000]
    out.append({'kind': 'custom', 'chunks': big, 'mode': 'iter_text', 'pattern': 'percent'})
    for k in (0, 1, 20, 40, 41):
      out.append({'kind': 'custom', 'chunks': big, 'mode': 'iter_text', 'fail_after': k, 'pattern': 'percent'})
  return out


def label(scn):
  d = dict(scn)
  if 'chunks' in d:
    d['chunks'] = len(d['chunks'])
  return json.dumps(d, sort_keys=True, default=str)


def _work(item):
  scn, prev_kind = item
  prev = None if prev_kind == 'fresh' else b'{"previous": "complete record"}' * 40
  lab = '%s|%s' % (label(scn), prev_kind)
  viols = []
  runs = 0
  snaps = 0
  outcomes = set()

  def record(res, fault):
    nonlocal runs, snaps
    runs += 1
    snaps += res['snapshots']
    outcomes.add(res['outcome'])
    for where, what in res['viols']:
      site = where.split('@')[0]
      fdesc = 'none' if not fault else (fault['op'] if fault['op'] != 'line' else 'line:%s:%d' % tuple(fault['at']))
      sig = '%s|%s|fault=%s|%s' % (scn['kind'] + ':' + str(scn.get('mode', scn.get('record', ''))) +
                                   (':fail_after' if scn.get('fail_after') is not None else ''), prev_kind, fdesc, site)
      viols.append((sig, '%s fault=%s at %s: %s' % (lab, fault, where, what),
                    {'scenario': {k: v for k, v in scn.items() if k != 'chunks'}, 'chunks': scn.get('chunks'),
                     'prev': prev_kind, 'fault': fault}))

  base = run_scenario(scn, prev, None)
  record(base, None)
  ev = base['events']
  for i in thin(ev):
    f = {'op': 'line', 'i': i, 'at': ev[i]}
    record(run_scenario(scn, prev, f), f)
  # temp-file proxy faults
  target = 'open' if scn['kind'] == 'atomic_write' else 'ntf'
  nwrites = 3 if scn['kind'] == 'atomic_write' else 4
  for k in range(1, nwrites + 1):
    f = {'op': 'write', 'k': k, 'target': target}
    record(run_scenario(scn, prev, f), f)
  for after in (False, True):
    f = {'op': 'close', 'k': 1, 'after': after, 'target': target}
    record(run_scenario(scn, prev, f), f)
  f = {'op': 'flush', 'k': 1, 'target': target}
  record(run_scenario(scn, prev, f), f)
  # two-step history: output #1 (long) is killed at point k, then output #2 (shorter, same file name) succeeds
  if scn.get('history'):
    scn2 = dict(scn)
    scn2.pop('history')
    scn2['chunks'] = ['{"short": 1}']
    n_all = base['all_events']
    pts = sorted(set(list(range(0, n_all, max(1, n_all // 60))) + list(range(max(0, n_all - 12), n_all))))
    for k in pts:
      root2 = tempfile.mkdtemp(prefix='vf_c17h_')
      try:
        run_scenario(scn, prev, None, copy_at=k, copy_to=root2)
        res2 = run_scenario(scn2, None, None, root=root2)
        f = {'op': 'history', 'killed_first_output_at_event': k}
        record(res2, f)
      finally:
        shutil.rmtree(root2, ignore_errors=True)
  return {'label': lab, 'runs': runs, 'snapshots': snaps, 'viols': viols, 'outcomes': sorted(outcomes),
          'line_events': len(ev), 'fault_points': len(thin(ev))}


# ---- success path: "on success the destination holds exactly the serialized record" for every chunk-size shape --------
SIZES = [0, 1, 4095, 8192, 8193, 65535, 65536, 65537, 100000]


def _sizes_work(item):
  mode, n1s = item
  import shutil, tempfile  # pylint: disable=g-import-not-at-top,multiple-imports
  viols, n = [], 0
  root = tempfile.mkdtemp(prefix='c17sz_', dir=os.environ.get('VERIF_SCRATCH') or None)
  try:
    for n1 in n1s:
      for n2 in SIZES:
        for n3 in (SIZES if n1 in (0, 1, 65536, 100000) else (1, 65537)):
          chunks = ['a' * n1, 'b' * n2, 'c' * n3]
          scn = {'kind': 'custom', 'chunks': chunks, 'mode': mode, 'pattern': 'brace'}
          outdir = os.path.join(root, 'o%d' % n)
          os.makedirs(outdir)
          fn, exp, dest = build(scn, outdir)
          n += 1
          try:
            fn()
            got = open(dest, 'rb').read() if os.path.exists(dest) else None
          except Exception as e:  # pylint: disable=broad-except
            got = 'EXC:%r' % (e,)
          if got != exp:
            what = ('destination holds %s bytes, the serialization has %d' % (len(got) if isinstance(got, bytes) else got, len(exp)))
            viols.append(('sizes:%s:content' % mode, 'chunk sizes %r (%s): %s' % ([n1, n2, n3], mode, what),
                          {'sizes_case': [mode, n1, n2, n3]}))
          shutil.rmtree(outdir, ignore_errors=True)
  finally:
    shutil.rmtree(root, ignore_errors=True)
  return n, viols


# ---- one callback object handed two records at the same time (two stations / two DUT threads sharing an output callback) ----
def run_shared_callback(mode, hold_at):
  """Record 1's serialization is suspended after `hold_at` chunks while record 2 goes through the same callback object
  completely (event-driven, no timing); both destinations must hold exactly their own serialization."""
  import copy, shutil, tempfile, threading  # pylint: disable=g-import-not-at-top,multiple-imports
  cb, jf, aw = mods()
  rec1 = make_record('small')
  rec2 = copy.copy(rec1)
  rec2.dut_id = 'DUT-8'
  chunks = {'DUT-7': ['[1-a,', '1-b,' * 3000, '1-c]'], 'DUT-8': ['[2-a,', '2-b,' * 3000, '2-c]']}
  held, release = threading.Event(), threading.Event()

  class Shared(cb.OutputToFile):

    @staticmethod
    def serialize_test_record(test_rec):
      def gen():
        for i, c in enumerate(chunks[test_rec.dut_id]):
          if test_rec.dut_id == 'DUT-7' and i == hold_at:
            held.set()
            release.wait(10)
          yield c.encode() if mode == 'iter_bytes' else c
      return gen()

  root = tempfile.mkdtemp(prefix='c17sh_', dir=os.environ.get('VERIF_SCRATCH') or None)
  errs = {}
  try:
    o = Shared(pattern_in(root, 'brace'))

    def first():
      try:
        o(rec1)
      except Exception as e:  # pylint: disable=broad-except
        errs[1] = repr(e)

    t = threading.Thread(target=first, name='record-1')
    t.start()
    ok = held.wait(10)
    try:
      o(rec2)
    except Exception as e:  # pylint: disable=broad-except
      errs[2] = repr(e)
    release.set()
    t.join(20)
    out = {}
    for rec in (rec1, rec2):
      dest = os.path.join(root, expected_name('brace', rec))
      out[rec.dut_id] = open(dest, 'rb').read() if os.path.exists(dest) else None
    left = sorted(f for f in os.listdir(root) if f not in [expected_name('brace', r) for r in (rec1, rec2)])
  finally:
    shutil.rmtree(root, ignore_errors=True)
  bad = []
  if not ok:
    bad.append(('shared:harness', 'record 1 never reached its hold point'))
  for dut in ('DUT-7', 'DUT-8'):
    exp = ''.join(chunks[dut]).encode()
    if out.get(dut) != exp:
      got = out.get(dut)
      bad.append(('shared:content:%s' % mode, 'one callback object, two records at once (record 1 held after %d chunks): destination of %s holds '
                  '%s, its serialization has %d bytes (errors %r)' % (hold_at, dut, 'nothing' if got is None else '%d bytes%s' % (
                      len(got), '' if got != exp[:len(got)] else ' (a strict prefix)'), len(exp), errs)))
  if errs:
    bad.append(('shared:raised', 'callback raised %r' % (errs,)))
  if left:
    bad.append(('shared:leftover', 'files left next to the destinations: %r' % (left,)))
  return bad


def run_retry_cases():
  """The same callback object is handed the same record again after an attempt that failed part-way (a write of the staging
  file failed, or the serializer raised after some chunks): the second, undisturbed attempt publishes the whole record."""
  import shutil  # pylint: disable=g-import-not-at-top
  cb, jf, aw = mods()
  bad, n = [], 0
  rec = make_record('small')
  chunks = ['[first,', 'x' * 9000, ',last]']
  prev = b'{"previous": "complete record"}'
  for kind in ('json', 'custom_text', 'custom_bytes'):
    for how, k in [('write', 1), ('write', 2), ('write', 3), ('serializer', 1), ('serializer', 2)]:
      if kind == 'json' and how == 'serializer':
        continue
      root = tempfile.mkdtemp(prefix='c17rt_', dir=os.environ.get('VERIF_SCRATCH') or None)
      real_ntf = tempfile.NamedTemporaryFile
      try:
        attempts = {'n': 0}
        if kind == 'json':
          o = jf.OutputToJSON(pattern_in(root, 'brace'), sort_keys=True)
          exp = ''.join(o.serialize_test_record(rec)).encode()
        else:
          class Flaky(cb.OutputToFile):

            @staticmethod
            def serialize_test_record(test_rec):
              attempts['n'] += 1
              first = attempts['n'] == 1

              def gen():
                for i, c in enumerate(chunks):
                  if first and how == 'serializer' and i == k:
                    raise SerializerBoom('serializer failed after %d chunks (first attempt only)' % i)
                  yield c.encode() if kind == 'custom_bytes' else c
              return gen()

          o = Flaky(pattern_in(root, 'brace'))
          exp = ''.join(chunks).encode()
        dest = os.path.join(root, expected_name('brace', rec))
        with open(dest, 'wb') as f:
          f.write(prev)
        counter = {'write': 0, 'flush': 0, 'close': 0}
        if how == 'write':
          tempfile.NamedTemporaryFile = lambda *a, **kw: FileProxy(real_ntf(*a, **kw), {'op': 'write', 'k': k}, counter)
        first_exc = None
        try:
          o(rec)
        except Exception as e:  # pylint: disable=broad-except
          first_exc = e
        finally:
          tempfile.NamedTemporaryFile = real_ntf
        n += 1
        tag = 'retry:%s:%s%d' % (kind, how, k)
        after_first = open(dest, 'rb').read() if os.path.exists(dest) else None
        if first_exc is None:
          if after_first != exp:       # (fewer writes than k: the attempt simply succeeded)
            bad.append((tag + ':first', 'first attempt returned normally but the destination is not the serialization'))
          continue
        if after_first != prev:
          bad.append((tag + ':first', 'failed first attempt left %s at the destination (previous record: %d bytes)'
                      % ('nothing' if after_first is None else '%d bytes' % len(after_first), len(prev))))
        second_exc = None
        try:
          o(rec)
        except Exception as e:  # pylint: disable=broad-except
          second_exc = e
        final = open(dest, 'rb').read() if os.path.exists(dest) else None
        if second_exc is not None:
          bad.append((tag + ':second-raised', 'undisturbed second attempt raised %r' % (second_exc,)))
        elif final != exp:
          bad.append((tag + ':second', 'second attempt succeeded but the destination holds %s, the serialization has %d bytes'
                      % ('nothing' if final is None else '%d bytes%s' % (len(final), ' (a suffix of it)' if exp.endswith(final) else ''), len(exp))))
      finally:
        tempfile.NamedTemporaryFile = real_ntf
        shutil.rmtree(root, ignore_errors=True)
  return n, bad


def run_consecutive_records():
  """One long-lived callback object, consecutive records that agree in dut / station / times and differ only in another
  field the file-name pattern uses: each goes to the file named by ITS fields."""
  import copy, shutil, tempfile  # pylint: disable=g-import-not-at-top,multiple-imports
  cb, jf, aw = mods()
  bad = []
  n = 0
  for pat_name, pattern, field in (('brace', '{dut_id}.{metadata[test_name]}.json', 'name'),
                                   ('percent-outcome', '%(dut_id)s.%(outcome)s.json', 'outcome'),
                                   ('callable', lambda dut_id, metadata, **kw: '%s.%s.cb' % (dut_id, metadata['test_name']), 'name')):
    root = tempfile.mkdtemp(prefix='c17cr_', dir=os.environ.get('VERIF_SCRATCH') or None)
    try:
      rec1 = make_record('small')
      rec2 = copy.copy(rec1)
      if field == 'name':
        rec2.metadata = dict(rec1.metadata, test_name='othername')
      else:
        from openhtf.core import test_record  # pylint: disable=g-import-not-at-top
        rec2.outcome = test_record.Outcome.FAIL if rec1.outcome is not test_record.Outcome.FAIL else test_record.Outcome.PASS
      full = (lambda **kw: os.path.join(root, pattern(**kw))) if callable(pattern) else os.path.join(root, pattern)
      o = jf.OutputToJSON(full, sort_keys=True)
      want = {}
      for rec in (rec1, rec2, rec1):
        n += 1
        o(rec)
        exp = ''.join(o.serialize_test_record(rec)).encode()
        name = o.create_file_name(rec) if False else None
        from openhtf.util import data as _data  # pylint: disable=g-import-not-at-top
        d = _data.convert_to_base_types(rec)
        fname = pattern(**d) if callable(pattern) else (pattern.format(**d) if '{' in pattern else pattern % d)
        want[fname] = exp
        for fn_, content in want.items():
          path = os.path.join(root, fn_)
          got = open(path, 'rb').read() if os.path.exists(path) else None
          if got != content:
            bad.append(('consecutive:%s' % pat_name, 'pattern %s, records differing only in %s through one callback object: file %s holds %s, '
                        'expected the %d-byte serialization of the record named so' % (pat_name, field, fn_, 'nothing' if got is None else '%d bytes' % len(got), len(content))))
            break
      extra = sorted(set(os.listdir(root)) - set(want))
      if extra:
        bad.append(('consecutive:%s:extra' % pat_name, 'unexpected files %r' % (extra,)))
    finally:
      shutil.rmtree(root, ignore_errors=True)
  return n, bad


def run_shared(rep):
  n, bad = run_retry_cases()
  for sig, what in bad:
    rep.merge_violations([(sig, what, {'retry': True})])
  rep.add_part('same callback object and record again after a failed attempt', evaluations=n, distinct_nontrivial=n, exhaustive=True,
               samples=[{'first_attempt_fails_at': ['write 1-3 of the staging file', 'serializer after 1-2 chunks']}])
  n, bad = run_consecutive_records()
  for sig, what in bad:
    rep.merge_violations([(sig, what, {'consecutive': True})])
  rep.add_part('one callback object, consecutive records with colliding times', evaluations=n, distinct_nontrivial=n, exhaustive=True,
               samples=[{'patterns': ['{dut_id}.{metadata[test_name]}', '%(dut_id)s.%(outcome)s', 'callable'], 'records': 3}])
  n = 0
  for mode in ('iter_text', 'iter_bytes'):
    for hold_at in (0, 1, 2):
      n += 1
      for sig, what in run_shared_callback(mode, hold_at):
        rep.merge_violations([(sig, what, {'shared_case': [mode, hold_at]})])
  rep.add_part('one callback object, two concurrent records', evaluations=n, distinct_nontrivial=n, exhaustive=True,
               samples=[{'shape': 'record 1 suspended after k of 3 chunks while record 2 is written completely', 'k': [0, 1, 2]}])


def run_sizes(rep):
  items = [(m, [n1]) for m in ('iter_text', 'iter_bytes') for n1 in SIZES]
  res = common.pmap(_sizes_work, items, chunksize=1)
  for r in res:
    rep.merge_violations(r[1])
  n = sum(r[0] for r in res)
  rep.add_part('success-path chunk sizes', evaluations=n, distinct_nontrivial=n, exhaustive=True,
               samples=[{'sizes': SIZES, 'shape': 'three chunks, text and bytes iterators'}])


def run(tier):
  rep = common.Report(PID, tier, 'fault_enumeration')
  run_sizes(rep)
  run_shared(rep)
  for k in ('small', 'nan') + (('large',) if tier == 'thorough' else ()):
    make_record(k)  # built before forking so that every worker shares them
  items = [(s, p) for s in scenarios(tier) for p in ('fresh', 'previous')]
  res = common.pmap(_work, common.rotate(items), chunksize=1)
  runs = sum(r['runs'] for r in res)
  snaps = sum(r['snapshots'] for r in res)
  outcomes = set()
  for r in res:
    rep.merge_violations(r['viols'])
    outcomes.update(map(tuple, r['outcomes']))
  rep.add_part('crash+fault', evaluations=snaps, distinct_nontrivial=runs, exhaustive=True,
               samples=[{'scenario': r['label'], 'runs': r['runs'], 'kill_points_checked': r['snapshots'],
                         'line_events': r['line_events'], 'fault_points': r['fault_points'], 'outcomes': r['outcomes']}
                        for r in res[:3]])
  rep.assumptions = [
      'process kill = completed syscalls persist, user-space buffers are lost (the destination is read through a '
      'separate descriptor without flushing); power loss is not modelled',
      'staging directory is placed on the destination file system (tempfile.tempdir), as the statement assumes',
      'kill/fault granularity is the source line in openhtf.output.callbacks, json_factory, util.atomic_write, '
      'shutil.move/copy and tempfile; inside per-chunk loops with > 8 iterations faults are injected at the '
      'first 3, two middle and last 3 iterations (all iterations are still kill points)',
  ]
  return rep.finish(
      scenarios=len(items), executions=runs, kill_points_checked=snaps, distinct_outcomes=len(outcomes),
      rule='evaluations = destination-state checks (one per kill point per execution); distinct_nontrivial = '
           'executions (scenario x previous-content x injected fault)')


def replay(art):
  if art.get('replay', {}).get('retry'):
    n, bad = run_retry_cases()
    for b in bad:
      print('VIOLATED', b)
    return 1 if bad else 0
  if art.get('replay', {}).get('consecutive'):
    n, bad = run_consecutive_records()
    for b in bad:
      print('VIOLATED', b)
    return 1 if bad else 0
  if 'shared_case' in art.get('replay', {}):
    bad = run_shared_callback(*art['replay']['shared_case'])
    for b in bad:
      print('VIOLATED', b)
    return 1 if bad else 0
  r = art['replay']
  if r.get('sizes_case'):
    mode, n1, n2, n3 = r['sizes_case']
    global SIZES
    saved, SIZES = SIZES, [n2]
    try:
      n, viols = _sizes_work((mode, [n1]))
    finally:
      SIZES = saved
    viols = [v for v in viols]
    for v in viols:
      print('VIOLATED', v[0], v[1])
    return 1 if viols else 0
  scn = dict(r['scenario'])
  if r.get('chunks') is not None:
    scn['chunks'] = r['chunks']
  prev = None if r['prev'] == 'fresh' else b'{"previous": "complete record"}' * 40
  fault = r['fault']
  if fault and 'at' in fault:
    fault['at'] = tuple(fault['at'])
  res = run_scenario(scn, prev, fault)
  print('outcome', res['outcome'])
  for v in res['viols']:
    print('VIOLATED', v)
  return 1 if res['viols'] else 0
