#!/bin/bash
# usage: tools_mut_dev.sh <patch> <ID> [extra args]   -- like tools_mut.sh but on the scratch worktree /tmp/wt/dev
# (development aid only: evidence written by it does not come from /repo; re-run ./check afterwards)
P=$(realpath "$1"); ID=$2; shift 2
W=/tmp/wt/dev
git -C $W checkout -q -- . ; git -C $W apply "$P" || { echo "patch failed"; exit 2; }
cd /verif
PYTHONPATH=$W:/verif PYTHONHASHSEED=0 PYTHONDONTWRITEBYTECODE=1 OPENHTF_VERIF=1 timeout 1200 /venv/bin/python -m vf.main $ID "$@"
rc=$?
git -C $W checkout -q -- .
echo "check rc=$rc"
